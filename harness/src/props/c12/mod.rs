//! C12 — signatures made by the signer verify; the signed octets follow
//! RFC 4034.
//!
//! Sub-checks
//! * `sign-verify`: generated RRset → library signer (four routes) → checks
//!   on the RRSIG RR, on the signed octets (independent RFC 4034 §3.1.8.1
//!   construction + independent `ring::signature` verification), library
//!   validation after legitimate resolver transformations, and failure of
//!   validation after every single alteration. One case in eight with >= 2
//!   records gives the records differing TTLs: the signer may refuse (the
//!   documented panic / MultipleTtlValues), but an RRSIG it returns must
//!   pass all of the above with the Original TTL it chose.
//! * `keytag-ds`: generated DNSKEY RDATA → `Dnskey::key_tag`,
//!   `DnskeyExt::digest` against the reference computations.
//! * `zone-history`: a generated zone is put into one `SortedRecords` by a
//!   generated history of operations (batches split anywhere), the container
//!   is compared with the RFC 4034 §6 order after every step and the zone is
//!   signed with `sign_sorted_zone_records`; every RRSIG must verify (see
//!   `zone.rs`).
//! * `rsa-key-field`: generated RFC 3110 public key fields →
//!   `rsa_exponent_modulus` / `rsa_encode` / `PublicKey::from_dnskey` against
//!   the reference split, at the length limits.
//! * `fixtures`: sweep over the fixture key files (key tags vs file names,
//!   DS digests vs the `.ds` files written by the key tool, loadability,
//!   reference self-test against RFC vectors).
mod keys;
mod reference;
mod zone;

use crate::engine::*;
use crate::gen::message as gm;
use crate::gen::name::{self as gn, Labels};
use crate::gen::rdata as grd;
use crate::gen::*;
use crate::refimpl::rdata as rr;
use crate::refimpl::serial as rs;
use crate::{vensure, vfail};
use arbitrary::Unstructured;
use bytes::Bytes;
use domain::base::iana::{DigestAlgorithm, Rtype, SecurityAlgorithm};
use domain::base::name::{FlattenInto, ParsedName, ToName};
use domain::base::{Message, Name, Record};
use domain::crypto::common::AlgorithmError;
use domain::crypto::sign::{KeyPair, SignError, SignRaw, Signature};
use domain::dnssec::sign::error::SigningError;
use domain::dnssec::sign::keys::signingkey::SigningKey;
use domain::dnssec::sign::records::{Rrset, SortedRecords};
use domain::dnssec::sign::signatures::rrsigs::{sign_rrset, sign_sorted_rrset_in, sign_sorted_zone_records, GenerateRrsigConfig};
use domain::dnssec::validator::base::{DnskeyExt, RrsigExt};
use domain::rdata::dnssec::Timestamp;
use domain::rdata::{Dnskey, Rrsig, ZoneRecordData};
use reference as rf;
use std::cmp::Ordering;
use std::collections::BTreeMap;

type PN = ParsedName<Bytes>;
type NB = Name<Bytes>;
type RecP = Record<PN, ZoneRecordData<Bytes, PN>>;
type RecF = Record<NB, ZoneRecordData<Bytes, NB>>;

//------------ wire records, messages ------------------------------------------------

#[derive(Clone, Debug, PartialEq, Eq, Hash)]
struct WireRR {
    owner: Labels,
    rtype: u16,
    class: u16,
    ttl: u32,
    rdata: Vec<u8>,
}

impl WireRR {
    fn rr(&self) -> rf::RR {
        rf::RR { owner: self.owner.clone(), rtype: self.rtype, class: self.class, rdata: self.rdata.clone() }
    }
}

/// A response-like message: optional question, the records in the answer
/// section. Returns (octets, number of compression pointers written).
fn build_msg(u: &mut Unstructured, q: Option<&Labels>, rrs: &[WireRR], compress: bool) -> (Vec<u8>, usize) {
    let mut w = gm::Writer { buf: vec![0u8; 12], seen: vec![], layout: gm::Layout::default() };
    w.buf[2] = 0x84;
    if let Some(q) = q {
        w.name(u, q, compress);
        w.buf.extend_from_slice(&rrs.first().map(|r| r.rtype).unwrap_or(1).to_be_bytes());
        w.buf.extend_from_slice(&rrs.first().map(|r| r.class).unwrap_or(1).to_be_bytes());
        w.buf[5] = 1;
    }
    for r in rrs {
        w.name(u, &r.owner, compress);
        w.buf.extend_from_slice(&r.rtype.to_be_bytes());
        w.buf.extend_from_slice(&r.class.to_be_bytes());
        w.buf.extend_from_slice(&r.ttl.to_be_bytes());
        w.rdata(u, r.rtype, &r.rdata, compress, false);
    }
    w.buf[6..8].copy_from_slice(&(rrs.len() as u16).to_be_bytes());
    let p = w.layout.pointer_offsets.len();
    (w.buf, p)
}

struct Parsed {
    recs: Vec<RecP>,
    sigs: Vec<Record<PN, Rrsig<Bytes, PN>>>,
}

/// Parses the answer section with the library. RRSIG records are returned
/// separately when `split_sigs`.
fn parse_msg(bytes: Vec<u8>, split_sigs: bool) -> Result<Parsed, String> {
    let msg = Message::from_octets(Bytes::from(bytes)).map_err(|e| format!("Message::from_octets: {e}"))?;
    let mut out = Parsed { recs: vec![], sigs: vec![] };
    let ans = msg.answer().map_err(|e| format!("answer(): {e}"))?;
    for (i, r) in ans.enumerate() {
        let r = r.map_err(|e| format!("record {i}: {e}"))?;
        if split_sigs && r.rtype() == Rtype::RRSIG {
            match r.into_record::<Rrsig<Bytes, PN>>() {
                Ok(Some(x)) => out.sigs.push(x),
                Ok(None) => return Err(format!("record {i}: RRSIG not parsed as RRSIG")),
                Err(e) => return Err(format!("record {i} (RRSIG): {e}")),
            }
        } else {
            match r.into_record::<ZoneRecordData<Bytes, PN>>() {
                Ok(Some(x)) => out.recs.push(x),
                Ok(None) => return Err(format!("record {i}: not taken by ZoneRecordData")),
                Err(e) => return Err(format!("record {i}: {e}")),
            }
        }
    }
    Ok(out)
}

fn flatten(recs: &[RecP]) -> Vec<RecF> {
    recs.iter().cloned().map(|r| r.flatten_into()).collect()
}

//------------ keys ---------------------------------------------------------------------

struct CaseKey {
    idx: usize,
    alg: u8,
    flags: u16,
    pubkey: Vec<u8>,
    /// Some: a key pair made for this case (custom flags); None: cached pair
    own: Option<KeyPair>,
}

impl CaseKey {
    fn pair(&self) -> &KeyPair {
        match &self.own {
            Some(p) => p,
            None => keys::loaded()[self.idx].pair.as_ref().expect("signing fixture loads"),
        }
    }
    fn rdata(&self) -> Vec<u8> {
        rf::dnskey_rdata(self.flags, 3, self.alg, &self.pubkey)
    }
}

/// SigningKey wants to own its `SignRaw`; the fixture key pairs are shared.
#[derive(Debug)]
struct KRef<'a>(&'a KeyPair);
impl SignRaw for KRef<'_> {
    fn algorithm(&self) -> SecurityAlgorithm {
        self.0.algorithm()
    }
    fn dnskey(&self) -> Dnskey<Vec<u8>> {
        self.0.dnskey()
    }
    fn sign_raw(&self, data: &[u8]) -> Result<Signature, SignError> {
        self.0.sign_raw(data)
    }
}

fn alg_of(a: u8) -> SecurityAlgorithm {
    SecurityAlgorithm::from_int(a)
}

//------------ case -------------------------------------------------------------------------

#[derive(Clone, Copy, Debug, PartialEq, Eq, Hash)]
enum Route {
    SignRrset,
    SortedIn,
    SortedRecords,
    Zone,
}

#[derive(Debug, Hash)]
struct Case {
    key_idx: usize,
    custom_flags: Option<u16>,
    signer: Labels,
    owner: Labels,
    owner_kind: &'static str,
    rtype: u16,
    class: u16,
    ttl: u32,
    rdatas: Vec<Vec<u8>>,
    inc: u32,
    exp: u32,
    route: Route,
    parsed_input: bool,
    /// the records of the RRset carry differing TTLs (a sloppy zone file,
    /// records merged from two sources); seed of the TTL pattern
    mixed_ttl: Option<u64>,
    /// which resolver-side transformations to apply (bit mask)
    tmask: u8,
    /// kinds of the alterations to try afterwards
    alts: Vec<u8>,
    /// seed of the byte stream that drives the details of what happens
    /// after the case is fixed (shuffles, case flips, bit positions)
    tseed: u64,
}

fn apex(u: &mut Unstructured) -> Labels {
    let l: Labels = match pick(u, 8) {
        0 => vec![],
        1 | 2 => vec![b"example".to_vec()],
        3 => vec![b"Example".to_vec(), b"COM".to_vec()],
        4 => vec![b"test".to_vec()],
        5 => {
            let n = 2 + pick(u, 60);
            gn::name_with_len(u, n, false)
        }
        _ => {
            let n = 2 + pick(u, 24);
            gn::name_with_len(u, n, true)
        }
    };
    if flag(u) { gn::swap_case(&l, u) } else { l }
}

fn plain_label(u: &mut Unstructured) -> Vec<u8> {
    let n = 1 + pick(u, 6);
    (0..n).map(|_| gn::label_byte(u, true)).collect()
}

/// Owner of the RRset relative to the apex. Returns (owner, kind).
fn owner(u: &mut Unstructured, apex: &Labels, kind: usize) -> (Labels, &'static str) {
    let room = |l: &Labels| 255usize.saturating_sub(gn::wire_len(l));
    let mut o = apex.clone();
    let kind = match kind {
        0 => "apex",
        1 | 2 | 3 => {
            for _ in 0..1 + pick(u, 3) {
                if room(&o) >= 8 && o.len() < 120 {
                    let l = if chance(u, 60) { gn::label(u, 7, false) } else { plain_label(u) };
                    o.insert(0, l);
                }
            }
            "child"
        }
        4 | 5 | 6 => {
            // wildcard owner *.x.apex (0..2 labels between)
            for _ in 0..pick(u, 3) {
                if room(&o) >= 10 && o.len() < 120 {
                    o.insert(0, plain_label(u));
                }
            }
            if room(&o) >= 2 && o.len() < 126 {
                o.insert(0, b"*".to_vec());
                "wildcard"
            } else {
                "apex"
            }
        }
        7 => {
            o = vec![];
            "root"
        }
        8 => {
            // as many labels as fit (up to 127)
            while room(&o) >= 2 && o.len() < 127 {
                let b = gn::label_byte(u, true);
                o.insert(0, vec![b]);
            }
            if flag(u) && !o.is_empty() && o.len() > apex.len() {
                o[0] = b"*".to_vec();
                "wildcard-127"
            } else {
                "deep-127"
            }
        }
        9 => {
            // asterisk that is not a wildcard label: inner, or part of a label
            if room(&o) >= 12 && o.len() < 120 {
                match pick(u, 3) {
                    0 => {
                        o.insert(0, b"*".to_vec());
                        o.insert(0, plain_label(u));
                    }
                    1 => o.insert(0, b"**".to_vec()),
                    _ => o.insert(0, b"*a".to_vec()),
                }
            }
            "asterisk-not-wildcard"
        }
        10 => {
            o = gn::name(u, false);
            "unrelated"
        }
        _ => {
            o = gn::swap_case(&o, u);
            if room(&o) >= 8 && o.len() < 120 {
                o.insert(0, gn::swap_case(&vec![b"MiXeD".to_vec()], u).remove(0));
            }
            "mixed-case"
        }
    };
    (o, kind)
}

fn timestamps(u: &mut Unstructured) -> (u32, u32) {
    let inc = match pick(u, 6) {
        0 => [0u32, 1, 0x7FFF_FFFF, 0x8000_0000, 0xFFFF_FFFF, 0xFFFF_0000, 1_700_000_000][pick(u, 7)],
        1 => 0xFFFF_FFFFu32.wrapping_sub(u32_(u) % 100_000),
        _ => u32_(u),
    };
    let d = match pick(u, 14) {
        0 => 0u32,
        1 => 1,
        2 => 0x7FFF_FFFF,
        3 => 0x8000_0000,
        4 => 0x8000_0001,
        5 => 0xFFFF_FFFF,
        6 => u32_(u),
        7..=9 => 86400 * (1 + u32_(u) % 60),
        _ => u32_(u) >> 1,
    };
    (inc, inc.wrapping_add(d))
}

fn has_upper_embedded(rtype: u16, rd: &[u8]) -> bool {
    rr::name_spans(rtype, rd).iter().any(|&(off, len, _, lower)| lower && rd[off..off + len].iter().any(|b| b.is_ascii_uppercase()))
}

/// Key under which two RDATA are the same record in the DNS sense
/// (RFC 2181 5: same data; names compare case-insensitively, RFC 4343): all
/// embedded names folded, also those the DNSSEC canonical form leaves alone
/// (NSEC next name, SVCB target, IPSECKEY gateway). Records that differ under
/// this key also differ in canonical form.
fn dns_eq_key(rtype: u16, rd: &[u8]) -> Vec<u8> {
    let mut out = rd.to_vec();
    for (off, len, _, _) in rr::name_spans(rtype, rd) {
        // length octets are <= 63 and never in the range of upper-case letters
        out[off..off + len].make_ascii_lowercase();
    }
    out
}

/// Expands a seed into a byte stream (xorshift64*); seed 0 gives zeros, so
/// an exhausted input still selects the first alternative everywhere.
fn expand(seed: u64, n: usize) -> Vec<u8> {
    let mut x = seed;
    let mut out = Vec::with_capacity(n);
    while out.len() < n {
        x ^= x >> 12;
        x ^= x << 25;
        x ^= x >> 27;
        out.extend_from_slice(&x.wrapping_mul(0x2545_F491_4F6C_DD1D).to_le_bytes());
    }
    out
}

fn decode_case(u: &mut Unstructured, thorough: bool) -> Case {
    // All small choices first, the variable-length material (names, RDATA)
    // last, so that short inputs still vary every dimension.
    let tmask = byte(u);
    let n_alt = pick(u, 4);
    let alts: Vec<u8> = (0..n_alt).map(|_| byte(u)).collect();
    let tseed = u64_(u);
    let dseed = u64_(u);
    let sub = |i: u64| if dseed == 0 { 0 } else { fnv(&(dseed, i)) };
    // weights: Ed25519 38 %, P-256 25 %, P-384 15 %, RSASHA256 11 %, RSASHA512 11 %
    let key_idx = match pick(u, 100) {
        0..=37 => 0,
        38..=62 => 1,
        63..=77 => 2,
        78..=88 => 3,
        89..=96 => 4,
        // the larger RSA keys (4096 bit = the RFC 3110 limit; 3072 bit with a
        // 5-octet exponent; RSASHA512 with 4096 bit): 1 % each, they are slow
        97 => keys::BIG_RSA[0],
        98 => keys::BIG_RSA[1],
        _ => keys::BIG_RSA[2],
    };
    let route = match pick(u, 10) {
        0..=3 => Route::SignRrset,
        4..=6 => Route::SortedIn,
        7 | 8 => Route::SortedRecords,
        _ => Route::Zone,
    };
    let parsed_input = flag(u);
    let okind = pick(u, 12);
    let mut rtype = grd::rtype(u, true);
    if rtype == rr::RRSIG && !chance(u, 96) {
        // keep RRSIG RRsets (refusal path) at a few percent overall
        rtype = rr::A;
    }
    let n = match pick(u, 10) {
        0..=2 => 1,
        3..=5 => 2,
        6 => 3,
        _ => 1 + pick(u, if thorough { 24 } else { 8 }),
    };
    let custom_flags = if key_idx < 3 && chance(u, 70) { Some(if flag(u) { [0u16, 256, 257, 385, 0xFFFF, 0x8000][pick(u, 6)] } else { u16_(u) }) } else { None };
    let class = gm::class(u);
    let ttl = gm::ttl(u);
    let (inc, exp) = timestamps(u);
    let signer = apex(u);
    let (owner, owner_kind) = owner(u, &signer, okind);
    // the name pool and every record's RDATA come from their own expanded
    // streams (seeds derived from 8 early input octets): detail without long inputs; a zero seed
    // gives the simplest value
    let pseed = sub(1000);
    let pb = expand(pseed, 512);
    let mut pu = Unstructured::new(&pb);
    let plain_pool = flag(&mut pu);
    let mut pool = gn::pool(&mut pu, 3, plain_pool);
    pool.push(signer.clone());
    pool.push(owner.clone());
    pool.push(gn::swap_case(&owner, &mut pu));
    pool.push(vec![b"MAIL".to_vec(), b"Example".to_vec()]);
    let mut rdatas: Vec<Vec<u8>> = vec![];
    let mut canon: Vec<Vec<u8>> = vec![];
    for i in 0..n {
        let rseed = sub(i as u64);
        let rb = expand(rseed, 4096);
        let mut ru = Unstructured::new(&rb);
        let rd = grd::rdata(&mut ru, rtype, &pool, grd::Opts { plain_names: false, max_blob: if thorough { 300 } else { 48 } });
        if rr::canonical_rdata(rtype, &rd).is_ok() {
            let c = dns_eq_key(rtype, &rd);
            if !canon.contains(&c) {
                canon.push(c);
                rdatas.push(rd);
            }
        }
    }
    // one case in eight with >= 2 records gives them differing TTLs; derived
    // from the detail seed (no extra input octets: earlier replay files decode
    // as before, an exhausted input gives the plain case)
    let mseed = sub(MIXED_TTL_SALT);
    let mixed_ttl = if mseed % 8 == 1 && rdatas.len() >= 2 && rtype != rr::RRSIG { Some(mseed >> 3) } else { None };
    Case { key_idx, custom_flags, signer, owner, owner_kind, rtype, class, ttl, rdatas, inc, exp, route, parsed_input, mixed_ttl, tmask, alts, tseed }
}

const MIXED_TTL_SALT: u64 = 2000;

/// TTLs for the records of an RRset such that at least two differ.
fn mixed_ttls(seed: u64, base_ttl: u32, n: usize) -> Vec<u32> {
    let b = expand(seed | 1, 64 + 8 * n);
    let mut u = Unstructured::new(&b);
    let u = &mut u;
    let other = |u: &mut Unstructured, t: u32| -> u32 {
        let o = match pick(u, 6) {
            0 => t.wrapping_add(1),
            1 => t.wrapping_sub(1),
            2 => [0u32, 1, 60, 300, 3600, 86400, 0x7fff_ffff, 0x8000_0000, 0xffff_ffff][pick(u, 9)],
            3 => t / 2,
            4 => t ^ (1 << pick(u, 32)),
            _ => gm::ttl(u),
        };
        if o == t { t ^ 1 } else { o }
    };
    let mut out = vec![base_ttl; n];
    match pick(u, 5) {
        0 => {
            // the first record (whose TTL Rrset::ttl() reports) is the odd one
            out[0] = other(u, base_ttl);
        }
        1 => {
            let t = other(u, base_ttl);
            out[n - 1] = t;
        }
        2 => {
            let i = pick(u, n);
            out[i] = other(u, base_ttl);
        }
        3 => {
            // two sources merged: a run of records with one TTL, the rest
            // with another
            let k = 1 + pick(u, n - 1);
            let t = other(u, base_ttl);
            for x in out.iter_mut().skip(k) {
                *x = t;
            }
        }
        _ => {
            for x in out.iter_mut() {
                *x = gm::ttl(u);
            }
            if out.iter().all(|t| *t == out[0]) {
                out[n - 1] = out[0] ^ 1;
            }
        }
    }
    out
}

fn show_case(c: &Case) -> String {
    format!(
        "key={} flags={:?} signer={} owner={} ({}) {} class={} ttl={} n={} inc={} exp={} route={:?} parsed_input={} mixed_ttl={:?} tmask={:#010b} alts={:?}",
        keys::FIXTURES[c.key_idx].name,
        c.custom_flags,
        gn::show(&c.signer),
        gn::show(&c.owner),
        c.owner_kind,
        rr::mnemonic(c.rtype),
        c.class,
        c.ttl,
        c.rdatas.len(),
        c.inc,
        c.exp,
        c.route,
        c.parsed_input,
        c.mixed_ttl,
        c.tmask,
        c.alts
    )
}

//------------ signing ------------------------------------------------------------------------

/// What the signer returned, in plain values.
#[derive(Clone, Debug)]
struct SigOut {
    owner: Labels,
    class: u16,
    ttl: u32,
    f: rf::SigFields,
    sig: Vec<u8>,
    /// signed_data + verify_signed_data with the very objects the signer got
    /// and returned
    identity_buf: Vec<u8>,
    identity_verify: Result<(), AlgorithmError>,
}

fn sig_out<N: ToName, TN: ToName>(r: &Record<N, Rrsig<Bytes, TN>>) -> (Labels, u16, u32, rf::SigFields, Vec<u8>) {
    let d = r.data();
    (
        gn::from_name(r.owner()),
        r.class().to_int(),
        r.ttl().as_secs(),
        rf::SigFields {
            type_covered: d.type_covered().to_int(),
            alg: d.algorithm().to_int(),
            labels: d.labels(),
            orig_ttl: d.original_ttl().as_secs(),
            exp: d.expiration().into_int(),
            inc: d.inception().into_int(),
            key_tag: d.key_tag(),
            signer: gn::from_name(d.signer_name()),
        },
        d.signature().as_ref().to_vec(),
    )
}

/// Signs `recs` (already in the order the route wants) with
/// sign_rrset / sign_sorted_rrset_in and validates with the same objects.
macro_rules! sign_direct {
    ($recs:expr, $key:expr, $dnskey:expr, $inc:expr, $exp:expr, $sorted_in:expr, $scratch:expr) => {{
        let recs = $recs;
        let rrset = Rrset::new_from_owned(&recs[..]).expect("non-empty");
        let res = if $sorted_in { sign_sorted_rrset_in($key, &rrset, $inc, $exp, $scratch) } else { sign_rrset($key, &rrset, $inc, $exp) };
        res.map(|rec| {
            let (owner, class, ttl, f, sig) = sig_out(&rec);
            let mut buf: Vec<u8> = vec![];
            let mut refs: Vec<_> = recs.iter().collect();
            rec.data().signed_data(&mut buf, &mut refs[..]).expect("Vec never fails");
            let v = rec.data().verify_signed_data($dnskey, &buf);
            SigOut { owner, class, ttl, f, sig, identity_buf: buf, identity_verify: v }
        })
    }};
}

fn err_kind(e: &SigningError) -> &'static str {
    match e {
        SigningError::RrsigRrsMustNotBeSigned => "RrsigRrsMustNotBeSigned",
        SigningError::InvalidSignatureValidityPeriod(..) => "InvalidSignatureValidityPeriod",
        SigningError::OutOfMemory => "OutOfMemory",
        SigningError::SigningError(_) => "SigningError",
        SigningError::MultipleTtlValues => "MultipleTtlValues",
        SigningError::EmptyRecordSlice => "EmptyRecordSlice",
        _ => "other",
    }
}

//------------ library validation of plain values -------------------------------------------------

#[derive(Clone, Debug)]
struct SigVal {
    f: rf::SigFields,
    sig: Vec<u8>,
}

struct LibOutcome {
    buf: Vec<u8>,
    verify: Result<(), AlgorithmError>,
    pointers: usize,
    closest: Vec<Option<Labels>>,
}

/// Runs the library's validation primitives on a received RRset + RRSIG:
/// everything goes through a message (optionally compressed) and is parsed
/// by the library; `parsed_form` selects ParsedName inputs vs flat names.
/// Err(text) = the library's parser refused the message (not a validation
/// outcome).
fn lib_validate(u: &mut Unstructured, rrs: &[WireRR], sv: &SigVal, sig_owner: &Labels, dnskey: &Dnskey<Vec<u8>>, compress: bool, parsed_form: bool) -> Result<LibOutcome, String> {
    let mut all: Vec<WireRR> = rrs.to_vec();
    let mut sigrd = vec![];
    sigrd.extend_from_slice(&sv.f.type_covered.to_be_bytes());
    sigrd.push(sv.f.alg);
    sigrd.push(sv.f.labels);
    sigrd.extend_from_slice(&sv.f.orig_ttl.to_be_bytes());
    sigrd.extend_from_slice(&sv.f.exp.to_be_bytes());
    sigrd.extend_from_slice(&sv.f.inc.to_be_bytes());
    sigrd.extend_from_slice(&sv.f.key_tag.to_be_bytes());
    sigrd.extend_from_slice(&gn::to_wire(&sv.f.signer));
    sigrd.extend_from_slice(&sv.sig);
    let first = rrs.first();
    all.push(WireRR { owner: sig_owner.clone(), rtype: rr::RRSIG, class: first.map(|r| r.class).unwrap_or(1), ttl: first.map(|r| r.ttl).unwrap_or(0), rdata: sigrd });
    let (bytes, pointers) = build_msg(u, Some(sig_owner), &all, compress);
    let p = parse_msg(bytes, true)?;
    if p.sigs.len() != 1 || p.recs.len() != rrs.len() {
        return Err(format!("parsed {} records and {} RRSIGs, wrote {} and 1", p.recs.len(), p.sigs.len(), rrs.len()));
    }
    let sig = &p.sigs[0];
    let mut buf: Vec<u8> = vec![];
    let (verify, closest);
    if parsed_form {
        let mut refs: Vec<&RecP> = p.recs.iter().collect();
        sig.data().signed_data(&mut buf, &mut refs[..]).expect("Vec never fails");
        verify = sig.data().verify_signed_data(dnskey, &buf);
        closest = p.recs.iter().map(|r| sig.data().wildcard_closest_encloser(r).map(|n| gn::from_name(&n))).collect();
    } else {
        let mut flat = flatten(&p.recs);
        let fsig: Record<NB, Rrsig<Bytes, NB>> = sig.clone().flatten_into();
        fsig.data().signed_data(&mut buf, &mut flat[..]).expect("Vec never fails");
        verify = fsig.data().verify_signed_data(dnskey, &buf);
        closest = flat.iter().map(|r| fsig.data().wildcard_closest_encloser(r).map(|n| gn::from_name(&n))).collect();
    }
    Ok(LibOutcome { buf, verify, pointers, closest })
}

//------------ transformations ----------------------------------------------------------------------

fn swap_case_embedded(u: &mut Unstructured, rtype: u16, rd: &[u8]) -> Vec<u8> {
    let mut out = rd.to_vec();
    for (off, len, _, lower) in rr::name_spans(rtype, rd) {
        if !lower {
            continue;
        }
        let mut i = off;
        while i < off + len {
            let n = rd[i] as usize;
            if n == 0 || n > 63 {
                break;
            }
            for j in i + 1..(i + 1 + n).min(off + len) {
                if out[j].is_ascii_alphabetic() && flag(u) {
                    out[j] ^= 0x20;
                }
            }
            i += 1 + n;
        }
    }
    out
}

fn is_wildcard(owner: &Labels) -> bool {
    owner.first().map(|l| l.as_slice() == b"*").unwrap_or(false)
}

//------------ the main sub-check -----------------------------------------------------------------------

fn run_sign(data: &[u8], ctx: &mut Ctx) -> CaseResult {
    let mut u = Unstructured::new(data);
    let u = &mut u;
    let case = decode_case(u, ctx.thorough);
    let c = &case;
    let tbuf = expand(c.tseed, 4096);
    let mut tu = Unstructured::new(&tbuf);
    let u = &mut tu;
    ctx.sample(|| show_case(c));
    let lk = &keys::loaded()[c.key_idx];
    vensure!(lk.pair.is_some(), "keys:fixture-not-loadable", "{}: {:?}", lk.fx.name, lk.pair_err);
    // --- key
    let flags = c.custom_flags.unwrap_or(lk.kf.flags);
    let own = match c.custom_flags {
        Some(fl) => {
            let pk = Dnskey::new(fl, 3, alg_of(lk.kf.alg), lk.kf.key.clone()).expect("short key");
            match keys::load_pair(lk.fx, &pk) {
                Ok(p) => Some(p),
                Err(e) => vfail!("keys:from_bytes-refuses-other-flags", "{}: flags {fl}: {e}", lk.fx.name),
            }
        }
        None => None,
    };
    let ck = CaseKey { idx: c.key_idx, alg: lk.kf.alg, flags, pubkey: lk.kf.key.clone(), own };
    ctx.class(format!("alg:{}", ck.alg));
    if ck.alg == 8 || ck.alg == 10 {
        ctx.class(format!("rsa-modulus-octets:{}", rf::sig_len(ck.alg, &ck.pubkey).unwrap_or(0)));
    }
    let dnskey = ck.pair().dnskey();
    let want_tag = rf::key_tag(&ck.rdata()).expect("not algorithm 1");
    vensure!(dnskey.flags() == flags && dnskey.protocol() == 3 && dnskey.algorithm().to_int() == ck.alg && dnskey.public_key().as_slice() == &ck.pubkey[..], "keys:dnskey-of-keypair-differs-from-key-file", "{}: KeyPair::dnskey() = {dnskey:?}", lk.fx.name);
    vensure!(dnskey.key_tag() == want_tag, "keytag:differs-from-appendix-b", "{} flags {flags}: key_tag() = {}, Appendix B = {want_tag}", lk.fx.name, dnskey.key_tag());
    let skey: SigningKey<Bytes, KRef> = SigningKey::new(gn::to_name_bytes(&c.signer), flags, KRef(ck.pair()));
    vensure!(skey.algorithm().to_int() == ck.alg && skey.dnskey() == dnskey && skey.owner().as_slice() == &gn::to_wire(&c.signer)[..], "keys:signingkey-accessors", "SigningKey accessors");

    // --- the RRset as the signer gets it
    let mut base: Vec<WireRR> = c.rdatas.iter().map(|rd| WireRR { owner: c.owner.clone(), rtype: c.rtype, class: c.class, ttl: c.ttl, rdata: rd.clone() }).collect();
    if base.is_empty() {
        ctx.class("empty-after-dedup");
        return Ok(());
    }
    // a sloppy zone: the records of the RRset carry differing TTLs
    if let Some(ms) = c.mixed_ttl {
        if base.len() >= 2 {
            for (r, t) in base.iter_mut().zip(mixed_ttls(ms, c.ttl, c.rdatas.len())) {
                r.ttl = t;
            }
        }
    }
    let mixed = base.iter().any(|r| r.ttl != base[0].ttl);
    // owner case may differ between the records of an RRset
    if chance(u, 50) {
        for r in base.iter_mut().skip(1) {
            r.owner = gn::swap_case(&r.owner, u);
        }
        ctx.class("sign:owner-case-varies-between-records");
    }
    let distinct = base.clone();
    let mut dup_added = false;
    if c.route == Route::SortedRecords || c.route == Route::Zone {
        // duplicates (exact and differing only in case that the canonical
        // form folds): the sorted container drops them (RFC 2181 §5,
        // RFC 4034 §6.3)
        for i in 0..base.len().min(3) {
            if chance(u, 110) {
                let mut d = distinct[i].clone();
                if flag(u) {
                    d.owner = gn::swap_case(&d.owner, u);
                    d.rdata = swap_case_embedded(u, d.rtype, &d.rdata);
                }
                base.push(d);
                dup_added = true;
            }
        }
        if dup_added {
            ctx.class("sign:duplicates-given-to-SortedRecords");
        }
    }
    // order in which the signer gets them
    match c.route {
        Route::SortedIn => {
            // precondition: canonical order (reference §6.3 order)
            let mut keyed: Vec<(Vec<u8>, WireRR)> = base.iter().map(|r| (rr::canonical_rdata(r.rtype, &r.rdata).unwrap(), r.clone())).collect();
            keyed.sort_by(|a, b| a.0.cmp(&b.0));
            base = keyed.into_iter().map(|x| x.1).collect();
        }
        _ => {
            // any order
            for i in (1..base.len()).rev() {
                let j = pick(u, i + 1);
                base.swap(i, j);
            }
        }
    }
    let compress_in = c.parsed_input && flag(u);
    let with_q = flag(u);
    let (bytes, _) = build_msg(u, if with_q { Some(&c.signer) } else { None }, &base, compress_in);
    let parsed = match parse_msg(bytes, false) {
        Ok(p) => p,
        Err(e) => {
            // the library's parser refuses RDATA the generator considers
            // valid: a matter for C05, not a signing outcome
            ctx.class(format!("lib-parser-refuses-generated:{}", rr::mnemonic(c.rtype)));
            let _ = e;
            return Ok(());
        }
    };
    vensure!(parsed.recs.len() == base.len(), "selfcheck:parse-count", "parsed {} of {}", parsed.recs.len(), base.len());
    ctx.class(format!("type:{}", rr::mnemonic(c.rtype)));
    ctx.class(format!("owner:{}", c.owner_kind));
    ctx.class(format!("route:{:?}", c.route));
    ctx.class(if c.parsed_input { "sign-input:ParsedName" } else { "sign-input:flat" });
    ctx.class(format!("records:{}", distinct.len().min(4)));
    let (inc, exp) = (Timestamp::from(c.inc), Timestamp::from(c.exp));

    // --- sign
    let mut scratch: Vec<u8> = (0..pick(u, 40)).map(|_| byte(u)).collect();
    let flat = flatten(&parsed.recs);
    let signing = |scratch: &mut Vec<u8>| -> Result<Result<Option<SigOut>, SigningError>, Violation> { Ok(match c.route {
        Route::SignRrset | Route::SortedIn => {
            let si = c.route == Route::SortedIn;
            if c.parsed_input {
                sign_direct!(parsed.recs.clone(), &skey, &dnskey, inc, exp, si, scratch).map(Some)
            } else {
                sign_direct!(flat.clone(), &skey, &dnskey, inc, exp, si, scratch).map(Some)
            }
        }
        Route::SortedRecords => {
            let sr: SortedRecords<NB, ZoneRecordData<Bytes, NB>> = SortedRecords::from(flat.clone());
            let sets: Vec<_> = sr.rrsets().collect();
            vensure!(sets.len() == 1, "sortedrecords:one-rrset-split", "records of one owner/type/class came back as {} RRsets", sets.len());
            let set = &sets[0];
            vensure!(set.len() <= distinct.len(), "sortedrecords:duplicates-kept", "{} distinct records (canonical form) given {} times, SortedRecords keeps {}", distinct.len(), base.len(), set.len());
            vensure!(set.len() == distinct.len(), "sortedrecords:distinct-record-dropped", "{} distinct records, SortedRecords keeps {}", distinct.len(), set.len());
            let recs: Vec<RecF> = set.iter().cloned().collect();
            sign_direct!(recs, &skey, &dnskey, inc, exp, true, scratch).map(Some)
        }
        Route::Zone => {
            let sr: SortedRecords<NB, ZoneRecordData<Bytes, NB>> = SortedRecords::from(flat.clone());
            let apex = gn::to_name_bytes(&c.signer);
            let cfg = GenerateRrsigConfig::new(inc, exp);
            match sign_sorted_zone_records(&apex, sr.owner_rrs(), &[&skey], &cfg) {
                Err(e) => Err(e),
                Ok(v) => {
                    // what RFC 4035 §2.2 and the function's documentation
                    // say about which RRsets get a signature
                    let lo = gn::lower(&c.owner);
                    let la = gn::lower(&c.signer);
                    let in_zone = lo.len() >= la.len() && lo[lo.len() - la.len()..] == la[..];
                    let at_apex = lo == la;
                    let t = c.rtype;
                    let plain = in_zone && t != rr::RRSIG && t != rr::NS && !(at_apex && (t == rr::DNSKEY || t == rr::CDS || t == rr::CDNSKEY));
                    if plain {
                        vensure!(v.len() == 1, "zone:rrset-not-signed-once", "{} RRSIGs for one authoritative RRset", v.len());
                    }
                    if !in_zone || t == rr::RRSIG {
                        vensure!(v.is_empty(), "zone:signed-what-must-not-be-signed", "{} RRSIGs (in_zone={in_zone}, type {})", v.len(), rr::mnemonic(t));
                    }
                    vensure!(v.len() <= 1, "zone:rrset-not-signed-once", "{} RRSIGs for one RRset and one key", v.len());
                    match v.into_iter().next() {
                        None => Ok(None),
                        Some(rec) => {
                            let (owner, class, ttl, f, sig) = sig_out(&rec);
                            let recs: Vec<RecF> = sr.iter().cloned().collect();
                            let mut buf: Vec<u8> = vec![];
                            let mut refs: Vec<_> = recs.iter().collect();
                            rec.data().signed_data(&mut buf, &mut refs[..]).expect("Vec never fails");
                            let ver = rec.data().verify_signed_data(&dnskey, &buf);
                            Ok(Some(SigOut { owner, class, ttl, f, sig, identity_buf: buf, identity_verify: ver }))
                        }
                    }
                }
            }
        }
    }) };
    // An RRset whose records carry differing TTLs is not a valid RRset
    // (RFC 2181 5.2). The library's documented reaction (Changelog 0.12.1,
    // SigningError::MultipleTtlValues, the comments in Rrset::new*): the
    // attempt is detected and "the code currently panics. At least this
    // prevents bad signatures". The signer may therefore refuse (that panic,
    // or the designated error); but when a signing entry point returns an
    // RRSIG it must be a good one: everything below applies, with the
    // Original TTL the signer chose.
    let result: Result<Option<SigOut>, SigningError> = if mixed {
        ctx.class("mixed-ttl:given");
        ctx.class(format!("mixed-ttl:route:{:?}", c.route));
        if base[0].ttl != c.ttl {
            ctx.class("mixed-ttl:first-record-differs");
        }
        match guarded("signing an RRset with differing TTLs", || signing(&mut scratch)) {
            Ok(r) => match r? {
                Err(SigningError::MultipleTtlValues) => {
                    ctx.class("mixed-ttl:refused-with-error");
                    ctx.nontrivial(&case);
                    return Ok(());
                }
                other => other,
            },
            Err(v) => {
                if v.sig.contains("TTLs should be the same") {
                    ctx.class("mixed-ttl:refused-with-documented-panic");
                    ctx.nontrivial(&case);
                    return Ok(());
                }
                return Err(v);
            }
        }
    } else {
        signing(&mut scratch)?
    };

    // --- refusals
    if c.rtype == rr::RRSIG {
        ctx.class("refused:rrsig-rrset");
        match &result {
            Err(SigningError::RrsigRrsMustNotBeSigned) => {}
            Ok(None) if c.route == Route::Zone => {}
            Ok(_) => vfail!("sign:rrsig-rrset-signed", "an RRSIG RRset was signed ({:?})", c.route),
            Err(e) => vfail!("sign:rrsig-rrset-wrong-error", "{}", err_kind(e)),
        }
        ctx.nontrivial(&case);
        return Ok(());
    }
    let backwards = rs::cmp(c.exp, c.inc) == Some(Ordering::Less);
    if backwards {
        ctx.class("refused:expiration-before-inception");
        match &result {
            Err(SigningError::InvalidSignatureValidityPeriod(..)) => {}
            Ok(None) => {}
            Ok(Some(_)) => vfail!("sign:expiration-before-inception-accepted", "inc={} exp={}", c.inc, c.exp),
            Err(e) => vfail!("sign:expiration-before-inception-wrong-error", "{}", err_kind(e)),
        }
        return Ok(());
    }
    let so = match result {
        Ok(Some(s)) => s,
        Ok(None) => {
            ctx.class("zone:rrset-not-signed-by-policy");
            return Ok(());
        }
        Err(e) => vfail!("sign:refused-valid-rrset", "{} for inc={} exp={}", err_kind(&e), c.inc, c.exp),
    };
    if (c.exp as u64) < (c.inc as u64) {
        ctx.class("period-across-2^32-wrap");
    }
    if rs::cmp(c.exp, c.inc).is_none() {
        ctx.class("period-exactly-2^31");
    }

    // --- the RRSIG RR (RFC 4035 §2.2, RFC 4034 §3.1)
    // the TTL of the RRset: the one TTL all records have; for an RRset with
    // differing TTLs that the signer did not refuse, the value it put into
    // the Original TTL field (which one it picks is its business; RFC 2181
    // 5.2 leaves no valid choice) - signature, RRSIG RR and validation must
    // then be consistent with that value
    let rrset_ttl = if mixed { so.f.orig_ttl } else { c.ttl };
    if mixed {
        ctx.class("mixed-ttl:signed");
    }
    let want = rf::SigFields { type_covered: c.rtype, alg: ck.alg, labels: rf::rrsig_labels(&c.owner), orig_ttl: rrset_ttl, exp: c.exp, inc: c.inc, key_tag: want_tag, signer: c.signer.clone() };
    vensure!(gn::lower(&so.owner) == gn::lower(&c.owner), "rrsig:owner", "RRSIG owner {} for RRset owner {}", gn::show(&so.owner), gn::show(&c.owner));
    vensure!(so.class == c.class, "rrsig:class", "RRSIG class {} for RRset class {}", so.class, c.class);
    vensure!(so.ttl == rrset_ttl, "rrsig:ttl", "RRSIG TTL {} for RRset TTL {}{}", so.ttl, rrset_ttl, if mixed { " (= Original TTL field; records had differing TTLs)" } else { "" });
    vensure!(so.f.type_covered == want.type_covered, "rrsig:type-covered", "{} want {}", so.f.type_covered, want.type_covered);
    vensure!(so.f.alg == want.alg, "rrsig:algorithm", "{} want {}", so.f.alg, want.alg);
    vensure!(so.f.labels == want.labels, "rrsig:labels", "labels field {} for owner {} (RFC 4034 3.1.3: {})", so.f.labels, gn::show(&c.owner), want.labels);
    vensure!(so.f.orig_ttl == want.orig_ttl, "rrsig:original-ttl", "original TTL {} for RRset TTL {}", so.f.orig_ttl, want.orig_ttl);
    vensure!(so.f.exp == want.exp && so.f.inc == want.inc, "rrsig:validity-period", "inc/exp {}/{} want {}/{}", so.f.inc, so.f.exp, want.inc, want.exp);
    vensure!(so.f.key_tag == want.key_tag, "rrsig:key-tag", "key tag {} want {}", so.f.key_tag, want.key_tag);
    vensure!(gn::lower(&so.f.signer) == gn::lower(&want.signer), "rrsig:signer-name", "signer {} want {}", gn::show(&so.f.signer), gn::show(&want.signer));
    vensure!(Some(so.sig.len()) == rf::sig_len(ck.alg, &ck.pubkey), "rrsig:signature-length", "{} octets for algorithm {}", so.sig.len(), ck.alg);

    // --- the signed octets
    let ref_rrs: Vec<rf::RR> = distinct.iter().map(|r| r.rr()).collect();
    let ref_sd = match rf::signed_data(&want, &ref_rrs) {
        Ok(x) => x,
        Err(e) => vfail!("selfcheck:reference-signed-data", "{e}"),
    };
    match rf::verify(ck.alg, &ck.pubkey, &ref_sd, &so.sig) {
        Ok(true) => {}
        Ok(false) if mixed => vfail!(
            "sign:mixed-ttl-rrset-signed-but-not-over-rfc4034-octets",
            "records with TTLs {:?} were accepted ({:?}) and an RRSIG with Original TTL {} was returned, but its signature does not verify (ring, raw key) over the RFC 4034 3.1.8.1 octets (every RR with the Original TTL); library's own reconstruction {} the reference",
            distinct.iter().map(|r| r.ttl).collect::<Vec<_>>(),
            c.route,
            so.f.orig_ttl,
            if so.identity_buf == ref_sd { "equals" } else { "differs from" }
        ),
        Ok(false) => vfail!(format!("sign:signature-not-over-rfc4034-octets:{}", rr::mnemonic(c.rtype)), "the signature does not verify (ring, raw key) over the RFC 4034 3.1.8.1 octets; library's own reconstruction {} the reference\n  reference: {}\n  library:   {}", if so.identity_buf == ref_sd { "equals" } else { "differs from" }, hexs(&ref_sd), hexs(&so.identity_buf)),
        Err(e) => vfail!("selfcheck:reference-verify", "{e}"),
    }
    vensure!(so.identity_buf == ref_sd, format!("signed_data:differs-from-rfc4034:{}", rr::mnemonic(c.rtype)), "signed_data() on the signer's own input differs from the reference at octet {:?}", first_diff(&so.identity_buf, &ref_sd));
    vensure!(so.identity_verify.is_ok(), "verify:own-signature-rejected", "verify_signed_data on the signer's input: {:?}", so.identity_verify);

    // --- legitimate resolver transformations
    let tmask = c.tmask;
    let mut recv: Vec<WireRR> = distinct.clone();
    let mut applied: Vec<&'static str> = vec![];
    if tmask & 1 != 0 && recv.len() >= 2 {
        for i in (1..recv.len()).rev() {
            let j = pick(u, i + 1);
            recv.swap(i, j);
        }
        if recv != distinct {
            applied.push("reorder");
        }
    }
    if tmask & 2 != 0 {
        let before = recv.clone();
        for r in recv.iter_mut() {
            r.owner = gn::swap_case(&r.owner, u);
        }
        if recv != before {
            applied.push("owner-case");
        }
    }
    if tmask & 4 != 0 {
        let before = recv.clone();
        for r in recv.iter_mut() {
            r.rdata = swap_case_embedded(u, r.rtype, &r.rdata);
        }
        if recv != before {
            applied.push("embedded-name-case");
        }
    }
    if tmask & 8 != 0 {
        let same = flag(u);
        let t0 = gm::ttl(u);
        for r in recv.iter_mut() {
            r.ttl = if same { t0 } else { gm::ttl(u) };
        }
        if recv.iter().any(|r| r.ttl != rrset_ttl) {
            applied.push(if recv.iter().any(|r| r.ttl > rrset_ttl) { "ttl-raised" } else { "ttl-decremented" });
        }
    }
    let mut sig_owner = c.owner.clone();
    let mut expanded: Option<Labels> = None;
    if is_wildcard(&c.owner) && tmask & 16 != 0 {
        let ce: Labels = c.owner[1..].to_vec();
        let mut e = ce.clone();
        let k = 1 + pick(u, 3);
        for _ in 0..k {
            if 255 - gn::wire_len(&e) >= 2 && e.len() < 127 {
                let room = (255 - gn::wire_len(&e) - 1).min(63);
                let l = match pick(u, 4) {
                    0 => b"*".to_vec(),
                    1 => gn::label(u, room.min(9), false),
                    _ => {
                        let mut l = plain_label(u);
                        l.truncate(room);
                        l
                    }
                };
                e.insert(0, l);
            }
        }
        if e.len() > ce.len() {
            for r in recv.iter_mut() {
                // keep whatever case the previous step gave the closest encloser
                let tail = r.owner[1..].to_vec();
                r.owner = e[..e.len() - ce.len()].iter().cloned().chain(tail).collect();
            }
            sig_owner = e.clone();
            expanded = Some(e);
            applied.push("wildcard-expansion");
        }
    }
    let mut sv = SigVal { f: so.f.clone(), sig: so.sig.clone() };
    if tmask & 32 != 0 {
        let s2 = gn::swap_case(&sv.f.signer, u);
        if s2 != sv.f.signer {
            sv.f.signer = s2;
            applied.push("signer-name-case");
        }
    }
    let compress = tmask & 64 != 0;
    let parsed_form = tmask & 128 != 0 || compress;
    let out = match lib_validate(u, &recv, &sv, &sig_owner, &dnskey, compress, parsed_form) {
        Ok(o) => o,
        Err(e) => vfail!("selfcheck:received-message-not-parsed", "{e}"),
    };
    if compress && out.pointers > 0 {
        applied.push("name-compression");
    }
    for a in &applied {
        ctx.class(format!("t:{a}"));
    }
    ctx.class(if parsed_form { "validate-input:ParsedName" } else { "validate-input:flat" });
    // the reference over what the resolver holds must give the same octets
    // (checks the transformations themselves)
    let recv_rrs: Vec<rf::RR> = recv.iter().map(|r| r.rr()).collect();
    match rf::signed_data(&want, &recv_rrs) {
        Ok(x) => vensure!(x == ref_sd, "selfcheck:transformation-changes-reference-octets", "{applied:?}"),
        Err(e) => vfail!("selfcheck:reference-signed-data", "{e}"),
    }
    let tsig = applied.join("+");
    vensure!(out.buf == ref_sd, format!("signed_data:differs-after-transformation:{}", rr::mnemonic(c.rtype)), "after [{tsig}] (ParsedName={parsed_form}): first difference at {:?}", first_diff(&out.buf, &ref_sd));
    vensure!(out.verify.is_ok(), "verify:rejected-after-transformation", "after [{tsig}]: {:?}", out.verify);
    // closest encloser reported for expanded owners
    if let Some(e) = &expanded {
        let ce = gn::lower(&c.owner[1..].to_vec());
        for got in &out.closest {
            vensure!(got.as_ref().map(gn::lower) == Some(ce.clone()), "wildcard_closest_encloser:wrong", "owner {} labels {}: {:?}", gn::show(e), so.f.labels, got.as_ref().map(gn::show));
        }
    } else if !is_wildcard(&c.owner) {
        for got in &out.closest {
            vensure!(got.is_none(), "wildcard_closest_encloser:reported-for-exact-owner", "owner {}: {:?}", gn::show(&c.owner), got.as_ref().map(gn::show));
        }
    }
    let nontrivial_shape = distinct.len() >= 2 || is_wildcard(&c.owner) || distinct.iter().any(|r| has_upper_embedded(r.rtype, &r.rdata));
    if nontrivial_shape && !applied.is_empty() {
        ctx.nontrivial(&case);
    }

    // --- alterations: each must make validation fail
    for &alt_kind in &c.alts {
        let mut rrs2 = recv.clone();
        let mut sv2 = sv.clone();
        let mut key2 = (ck.alg, ck.pubkey.clone());
        let mut sig_owner2 = sig_owner.clone();
        let Some(kind) = alter(u, alt_kind, c, &so, &mut rrs2, &mut sv2, &mut key2, &mut sig_owner2) else { continue };
        // the alteration must change what the reference hashes, or the
        // signature, or the key
        let changed_data = match rf::signed_data(&sv2.f, &rrs2.iter().map(|r| r.rr()).collect::<Vec<_>>()) {
            Ok(x) => x != ref_sd,
            Err(_) => true,
        };
        vensure!(changed_data || sv2.sig != sv.sig || key2.1 != ck.pubkey || key2.0 != ck.alg, "selfcheck:alteration-without-effect", "{kind}");
        let dk2 = Dnskey::new(flags, 3, alg_of(key2.0), key2.1.clone()).expect("short key");
        let form = flag(u);
        match lib_validate(u, &rrs2, &sv2, &sig_owner2, &dk2, false, form) {
            Err(_) => {
                // the altered RDATA is not accepted by the library's parser:
                // the fault cannot be injected this way
                ctx.class(format!("alt-not-injectable:{kind}"));
            }
            Ok(o) => {
                ctx.class(format!("alt:{kind}"));
                vensure!(o.verify.is_err(), format!("verify:accepted-after-alteration:{kind}"), "validation still succeeds after alteration {kind} (transformations [{tsig}]); signed data {} the original", if o.buf == ref_sd { "equals" } else { "differs from" });
            }
        }
    }
    Ok(())
}

fn hexs(b: &[u8]) -> String {
    b.iter().take(400).map(|x| format!("{x:02x}")).collect()
}

fn first_diff(a: &[u8], b: &[u8]) -> Option<(usize, Option<u8>, Option<u8>, usize, usize)> {
    let n = a.len().max(b.len());
    (0..n).find(|&i| a.get(i) != b.get(i)).map(|i| (i, a.get(i).copied(), b.get(i).copied(), a.len(), b.len()))
}

/// Changes a name so that it is a different name (not a case variant).
/// `from`: only labels at index >= from may be touched.
fn alter_name(u: &mut Unstructured, n: &Labels, from: usize) -> Option<Labels> {
    if n.len() <= from {
        return None;
    }
    let mut out = n.clone();
    let li = from + pick(u, n.len() - from);
    let l = &mut out[li];
    let bi = pick(u, l.len());
    let old = l[bi];
    let bit = 1u8 << pick(u, 8);
    let mut new = old ^ bit;
    if new.to_ascii_lowercase() == old.to_ascii_lowercase() {
        new = old ^ 1; // case bit on a letter: change the letter instead
    }
    l[bi] = new;
    if gn::lower(&out) == gn::lower(n) {
        return None;
    }
    Some(out)
}

/// Applies one alteration; returns its kind, or None if it is not applicable
/// to this case.
fn alter(u: &mut Unstructured, kind: u8, c: &Case, so: &SigOut, rrs: &mut Vec<WireRR>, sv: &mut SigVal, key: &mut (u8, Vec<u8>), sig_owner: &mut Labels) -> Option<&'static str> {
    let covered_from = |owner: &Labels| owner.len().saturating_sub(so.f.labels as usize);
    Some(match (kind as usize * 20) >> 8 {
        0 => {
            sv.f.type_covered ^= 1 << pick(u, 16);
            "rrsig-type-covered"
        }
        1 => {
            // another algorithm number in the RRSIG; half of the time the
            // DNSKEY claims the same (RSASHA256 <-> RSASHA512 share the key format)
            let other = match sv.f.alg {
                8 => 10,
                10 => 8,
                13 => 14,
                14 => 13,
                _ => 13,
            };
            sv.f.alg = other;
            if flag(u) && (other == 8 || other == 10) {
                key.0 = other;
                "rrsig-and-dnskey-algorithm"
            } else {
                "rrsig-algorithm"
            }
        }
        2 => {
            let old = sv.f.labels;
            let min_owner = rrs.iter().map(|r| r.owner.len()).min().unwrap_or(0) as u8;
            sv.f.labels = match pick(u, 4) {
                0 => old.wrapping_add(1),
                1 => old.wrapping_sub(1),
                2 => min_owner,
                _ => old ^ (1 << pick(u, 8)),
            };
            if sv.f.labels == old {
                sv.f.labels = old.wrapping_add(1);
            }
            "rrsig-labels"
        }
        3 => {
            sv.f.orig_ttl ^= 1 << pick(u, 32);
            "rrsig-original-ttl"
        }
        4 => {
            sv.f.exp ^= 1 << pick(u, 32);
            "rrsig-expiration"
        }
        5 => {
            sv.f.inc ^= 1 << pick(u, 32);
            "rrsig-inception"
        }
        6 => {
            sv.f.key_tag ^= 1 << pick(u, 16);
            "rrsig-key-tag"
        }
        7 => {
            match alter_name(u, &sv.f.signer, 0) {
                Some(n) => sv.f.signer = n,
                None => {
                    if gn::wire_len(&sv.f.signer) + 2 > 255 {
                        return None;
                    }
                    sv.f.signer.insert(0, b"x".to_vec());
                }
            }
            "rrsig-signer-name"
        }
        8 | 9 => {
            // for ECDSA the signature is r | s, both fixed length: every bit
            // is in r or in s
            let i = pick(u, sv.sig.len());
            sv.sig[i] ^= 1 << pick(u, 8);
            if matches!(sv.f.alg, 13 | 14) {
                if i < sv.sig.len() / 2 { "signature-bit-ecdsa-r" } else { "signature-bit-ecdsa-s" }
            } else {
                "signature-bit"
            }
        }
        10 => {
            if flag(u) {
                sv.sig.pop();
            } else {
                sv.sig.push(byte(u));
            }
            "signature-length"
        }
        11 | 12 => {
            let i = pick(u, key.1.len());
            key.1[i] ^= 1 << pick(u, 8);
            "public-key-bit"
        }
        13 | 14 => {
            // one bit of one record's RDATA such that the RDATA stays well
            // formed and its canonical form changes
            let ri = pick(u, rrs.len());
            let old = rrs[ri].rdata.clone();
            if old.is_empty() {
                return None;
            }
            let oldc = rr::canonical_rdata(c.rtype, &old).ok()?;
            let mut done = false;
            for _ in 0..8 {
                let mut n = old.clone();
                let i = pick(u, n.len());
                n[i] ^= 1 << pick(u, 8);
                match rr::canonical_rdata(c.rtype, &n) {
                    Ok(nc) if nc != oldc => {
                        rrs[ri].rdata = n;
                        done = true;
                        break;
                    }
                    _ => {}
                }
            }
            if !done {
                return None;
            }
            "rdata-bit"
        }
        15 => {
            // owner: a label inside the covered part (what is left of the
            // closest encloser of an expanded wildcard is not hashed)
            let from = covered_from(&rrs[0].owner);
            let from = if is_wildcard(&c.owner) && rrs[0].owner.len() == c.owner.len() && from == 0 { 1 } else { from };
            let n = alter_name(u, &rrs[0].owner, from)?;
            if is_wildcard(&c.owner) && gn::lower(&n[n.len() - so.f.labels as usize..].to_vec()) == gn::lower(&c.owner[1..].to_vec()) {
                return None;
            }
            for r in rrs.iter_mut() {
                r.owner = n.clone();
            }
            *sig_owner = n;
            if is_wildcard(&c.owner) { "owner-not-under-closest-encloser" } else { "owner-label" }
        }
        16 => {
            // owner gains or loses a label
            let o = rrs[0].owner.clone();
            let n: Labels = if flag(u) && !is_wildcard(&c.owner) && gn::wire_len(&o) + 2 <= 255 && o.len() < 127 {
                let mut n = o.clone();
                n.insert(0, if flag(u) { b"*".to_vec() } else { b"x".to_vec() });
                n
            } else if o.len() > covered_from(&o) && !o.is_empty() {
                // drop the rightmost-but-root label: the covered suffix changes
                let mut n = o.clone();
                n.pop();
                if is_wildcard(&c.owner) && n.len() >= so.f.labels as usize && gn::lower(&n[n.len() - so.f.labels as usize..].to_vec()) == gn::lower(&c.owner[1..].to_vec()) {
                    return None;
                }
                n
            } else {
                return None;
            };
            if gn::lower(&n) == gn::lower(&o) {
                return None;
            }
            for r in rrs.iter_mut() {
                r.owner = n.clone();
            }
            *sig_owner = n;
            "owner-label-count"
        }
        17 => {
            // type of the records (to a code whose RDATA is opaque, so that
            // any RDATA stays well formed)
            let mut t = [65280u16, 99, 1234][pick(u, 3)];
            if t == c.rtype {
                t = 65281;
            }
            for r in rrs.iter_mut() {
                r.rtype = t;
            }
            "record-type"
        }
        18 => {
            let bit = 1u16 << pick(u, 16);
            for r in rrs.iter_mut() {
                r.class ^= bit;
            }
            "record-class"
        }
        _ => {
            if flag(u) && rrs.len() >= 2 {
                let i = pick(u, rrs.len());
                rrs.remove(i);
                "record-removed"
            } else {
                // a record whose canonical RDATA is not in the set
                let have: Vec<Vec<u8>> = rrs.iter().filter_map(|r| rr::canonical_rdata(r.rtype, &r.rdata).ok()).collect();
                let mut added = false;
                for _ in 0..4 {
                    let rd = grd::rdata(u, c.rtype, &[c.owner.clone()], grd::Opts { plain_names: true, max_blob: 24 });
                    if let Ok(cn) = rr::canonical_rdata(c.rtype, &rd) {
                        if !have.contains(&cn) {
                            let mut r = rrs[0].clone();
                            r.rdata = rd;
                            let at = pick(u, rrs.len() + 1);
                            rrs.insert(at, r);
                            added = true;
                            break;
                        }
                    }
                }
                if !added {
                    return None;
                }
                "record-added"
            }
        }
    })
}

//------------ key tags and DS digests --------------------------------------------------------------------

fn run_keytag(data: &[u8], ctx: &mut Ctx) -> CaseResult {
    let mut u = Unstructured::new(data);
    let u = &mut u;
    let flags = match pick(u, 4) {
        0 => [0u16, 256, 257, 0xFFFF, 0x8000, 385][pick(u, 6)],
        _ => u16_(u),
    };
    let proto = if chance(u, 200) { 3 } else { byte(u) };
    let alg = match pick(u, 4) {
        0 => [1u8, 3, 5, 7, 8, 10, 12, 13, 14, 15, 16, 253, 254, 255, 0][pick(u, 15)],
        1 => [8u8, 13, 15][pick(u, 3)],
        _ => byte(u),
    };
    // public key: lengths 0, odd, even, up to the RDLENGTH limit; fills that
    // make the 16-bit sums overflow into the carry
    let len = match pick(u, 10) {
        0 => pick(u, 4),
        1 => 32,
        2 => 64 + pick(u, 2),
        3 => 255 + pick(u, 4),
        4 => 65531 - pick(u, 3),
        5 => 2000 + pick(u, 3000),
        _ => pick(u, 600),
    };
    let fill = pick(u, 4);
    let seed = u64_(u);
    let mut x = seed | 1;
    let key: Vec<u8> = (0..len)
        .map(|i| match fill {
            0 => 0xFF,
            1 => {
                if i < 64 { byte(u) } else { 0xFF }
            }
            2 => {
                x ^= x << 13;
                x ^= x >> 7;
                x ^= x << 17;
                x as u8
            }
            _ => {
                if i < 200 { byte(u) } else { (i * 31) as u8 }
            }
        })
        .collect();
    let owner = if flag(u) { gn::name(u, false) } else { gn::swap_case(&vec![b"Example".to_vec(), b"COM".to_vec()], u) };
    let rd = rf::dnskey_rdata(flags, proto, alg, &key);
    let dk = match Dnskey::new(flags, proto, alg_of(alg), key.clone()) {
        Ok(d) => d,
        Err(_) => vfail!("dnskey:new-refuses-rdata-that-fits", "{} octets of RDATA", rd.len()),
    };
    // the carry matters when the 32-bit sum exceeds 16 bits
    let mut ac: u64 = 0;
    for (i, b) in rd.iter().enumerate() {
        ac += if i & 1 == 1 { *b as u64 } else { (*b as u64) << 8 };
    }
    if ac > 0xFFFF && alg != 1 {
        ctx.class("keytag:carry");
        if ((ac & 0xFFFF) + (ac >> 16)) > 0xFFFF {
            ctx.class("keytag:carry-out-of-fold");
        }
    }
    if key.len() % 2 == 1 {
        ctx.class("keytag:odd-length");
    }
    if alg == 1 {
        ctx.class("keytag:algorithm-1");
    }
    ctx.class(format!("keylen:{}", match key.len() { 0 => "0", 1..=63 => "<64", 64..=599 => "<600", 600..=9999 => "<10k", _ => ">=10k" }));
    ctx.nontrivial(&(flags, proto, alg, &key, &owner));
    ctx.sample(|| format!("flags={flags} proto={proto} alg={alg} keylen={} owner={}", key.len(), gn::show(&owner)));
    match rf::key_tag(&rd) {
        Some(want) => vensure!(dk.key_tag() == want, if alg == 1 { "keytag:algorithm-1-differs-from-appendix-b1" } else { "keytag:differs-from-appendix-b" }, "flags={flags} proto={proto} alg={alg} keylen={}: key_tag() = {}, Appendix B = {want}", key.len(), dk.key_tag()),
        None => {
            let _ = dk.key_tag(); // undefined by the RFC; must not panic
        }
    }
    let name = gn::to_name(&owner);
    for (dt, lib_dt) in [(1u8, DigestAlgorithm::SHA1), (2, DigestAlgorithm::SHA256), (4, DigestAlgorithm::SHA384)] {
        let want = rf::ds_digest(&owner, &rd, dt).unwrap();
        match dk.digest(&name, lib_dt) {
            Ok(d) => vensure!(d.as_ref() == &want[..], "ds-digest:differs-from-rfc4034-5.1.4", "digest type {dt}, owner {}", gn::show(&owner)),
            Err(e) => vfail!("ds-digest:supported-type-refused", "digest type {dt}: {e}"),
        }
    }
    // ... whatever type the owner name has: flat names over other octets
    // types, a name parsed from a message (uncompressed and compressed, i.e.
    // not available as one slice), a chain of a relative name and a suffix
    {
        let wire = gn::to_wire(&owner);
        let want = rf::ds_digest(&owner, &rd, 2).unwrap();
        let chk = |got: Result<domain::crypto::common::Digest, AlgorithmError>, repr: &str| -> CaseResult {
            match got {
                Ok(d) => {
                    vensure!(d.as_ref() == &want[..], format!("ds-digest:differs-from-rfc4034-5.1.4:{repr}"), "owner {} given as {repr}", gn::show(&owner));
                    Ok(())
                }
                Err(e) => vfail!("ds-digest:supported-type-refused", "owner as {repr}: {e}"),
            }
        };
        chk(dk.digest(&gn::to_name_bytes(&owner), DigestAlgorithm::SHA256), "Name<Bytes>")?;
        let ns: Name<&[u8]> = Name::from_octets(&wire[..]).expect("valid name");
        chk(dk.digest(&ns, DigestAlgorithm::SHA256), "Name<&[u8]>")?;
        if !owner.is_empty() {
            use domain::base::name::RelativeName;
            let k = 1 + pick(u, owner.len());
            let rel: RelativeName<Vec<u8>> = RelativeName::from_octets(gn::to_wire_rel(&owner[..k].to_vec())).expect("valid relative name");
            let chain = rel.chain(gn::to_name(&owner[k..].to_vec())).expect("fits");
            chk(dk.digest(&chain, DigestAlgorithm::SHA256), "Chain<RelativeName,Name>")?;
            ctx.class("ds-owner:chain");
        }
        // question = a suffix of the owner, answer owner = the labels before
        // it + a pointer to the question name (or the whole name again)
        let k = pick(u, owner.len() + 1);
        let compressed = flag(u);
        let mut m = vec![0u8; 12];
        m[2] = 0x84;
        m[5] = 1;
        m[7] = 1;
        m.extend_from_slice(&gn::to_wire(&owner[k..].to_vec()));
        m.extend_from_slice(&[0, 48, 0, 1]);
        if compressed {
            m.extend_from_slice(&gn::to_wire_rel(&owner[..k].to_vec()));
            m.extend_from_slice(&[0xC0, 12]);
        } else {
            m.extend_from_slice(&wire);
        }
        m.extend_from_slice(&[0, 1, 0, 1, 0, 0, 0, 0, 0, 4, 192, 0, 2, 1]);
        let msg = match Message::from_octets(Bytes::from(m)) {
            Ok(x) => x,
            Err(e) => vfail!("selfcheck:ds-owner-message", "{e}"),
        };
        let rec = match msg.answer().ok().and_then(|mut a| a.next()).and_then(|r| r.ok()) {
            Some(r) => r,
            None => vfail!("selfcheck:ds-owner-message", "no answer record"),
        };
        let pn = rec.owner().clone();
        vensure!(gn::from_name(&pn) == owner, "selfcheck:ds-owner-message", "owner parsed as {}", gn::show(&gn::from_name(&pn)));
        chk(dk.digest(&pn, DigestAlgorithm::SHA256), if compressed { "ParsedName-compressed" } else { "ParsedName-uncompressed" })?;
        ctx.class(if compressed { "ds-owner:ParsedName-compressed" } else { "ds-owner:ParsedName-uncompressed" });
        if owner.iter().any(|l| l.iter().any(|b| b.is_ascii_uppercase())) {
            ctx.class("ds-owner:has-upper-case");
        }
    }
    // the digest does not depend on the case of the owner
    let name2 = gn::to_name(&gn::swap_case(&owner, u));
    let a = dk.digest(&name, DigestAlgorithm::SHA256).map(|d| d.as_ref().to_vec());
    let b = dk.digest(&name2, DigestAlgorithm::SHA256).map(|d| d.as_ref().to_vec());
    vensure!(a.ok() == b.ok(), "ds-digest:depends-on-owner-case", "owner {}", gn::show(&owner));
    // digest types without an implementation are refused, not mis-computed
    let other = [3u8, 0, 5, 6, 255][pick(u, 5)];
    vensure!(dk.digest(&name, DigestAlgorithm::from_int(other)).is_err(), "ds-digest:unknown-type-accepted", "digest type {other}");
    Ok(())
}

//------------ RSA public key fields (RFC 3110) -----------------------------------------------------------

/// Generated RFC 3110 public key fields: `rsa_exponent_modulus` must split
/// every field whose exponent and modulus are 1..=512 octets (the RFC's
/// 4096-bit limit, which the function's own comment quotes) without leading
/// zero octets exactly as the reference does, `rsa_encode` must give the
/// field back, and the ring backend must accept such a key for
/// verification when ring itself does. What the library does with fields
/// outside the RFC's limits is not judged (only: no panic, and whatever is
/// returned is the reference split).
fn run_rsa_field(data: &[u8], ctx: &mut Ctx) -> CaseResult {
    use domain::crypto::common::{rsa_encode, rsa_exponent_modulus, PublicKey};
    let mut u = Unstructured::new(data);
    let u = &mut u;
    let alg = [8u8, 10, 5, 7][pick(u, 4)];
    let elen = match pick(u, 8) {
        0 => 1,
        1 | 2 => 3,
        3 => 4 + pick(u, 2),
        4 => [255usize, 256, 257, 511, 512][pick(u, 5)],
        5 => 513 + pick(u, 3),
        6 => 0,
        _ => 1 + pick(u, 16),
    };
    let nlen = match pick(u, 10) {
        0 => 512,
        1 => 511,
        2 => 513 + pick(u, 3),
        3 => 256,
        4 => 384,
        5 => 128,
        6 => 127,
        7 => pick(u, 4),
        _ => 1 + pick(u, 600),
    };
    let long_form = elen > 255 || chance(u, 16);
    let lead_e = chance(u, 16);
    let lead_n = chance(u, 16);
    let min_len = [0usize, 128, 256, 512][pick(u, 4)];
    let seed = u64_(u) | 1;
    let fill = expand(seed, elen + nlen);
    let mut e = fill[..elen].to_vec();
    let mut n = fill[elen..elen + nlen].to_vec();
    if let Some(b) = e.first_mut() {
        *b = if lead_e { 0 } else { *b | 1 };
    }
    if let Some(b) = n.first_mut() {
        *b = if lead_n { 0 } else { *b | 0x80 };
    }
    if let Some(b) = e.last_mut() {
        *b |= 1;
    }
    if let Some(b) = n.last_mut() {
        *b |= 1;
    }
    let mut field = vec![];
    if long_form {
        field.push(0);
        field.extend_from_slice(&(elen as u16).to_be_bytes());
    } else {
        field.push(elen as u8);
    }
    field.extend_from_slice(&e);
    field.extend_from_slice(&n);
    let dk = match Dnskey::new(256, 3, alg_of(alg), field.clone()) {
        Ok(d) => d,
        Err(_) => vfail!("dnskey:new-refuses-rdata-that-fits", "{} octets", field.len()),
    };
    ctx.sample(|| format!("alg={alg} elen={elen} nlen={nlen} long_form={long_form} lead_e={lead_e} lead_n={lead_n} min_len={min_len}"));
    // the 3-octet length form for a short exponent is not what RFC 3110
    // prescribes ("if it is greater than 255"); not judged
    let canonical_form = long_form == (elen > 255);
    let within = (1..=512).contains(&elen) && (1..=512).contains(&nlen) && !lead_e && !lead_n && canonical_form;
    let got = rsa_exponent_modulus(&dk, min_len);
    ctx.class(format!("rsa-field:modulus-octets:{}", match nlen { 0 => "0", 1..=127 => "<128", 128..=255 => "<256", 256..=510 => "<511", 511 => "511", 512 => "512", _ => ">512" }));
    ctx.class(format!("rsa-field:exponent-octets:{}", match elen { 0 => "0", 1..=255 => "<=255", 256..=511 => "<512", 512 => "512", _ => ">512" }));
    if let Ok((ge, gnn)) = &got {
        vensure!(*ge == e && *gnn == n, "rsa_exponent_modulus:split-differs-from-rfc3110", "elen={elen} nlen={nlen}: got {} + {} octets", ge.len(), gnn.len());
    }
    if within {
        ctx.nontrivial(&(alg, &field, min_len));
        if nlen >= min_len {
            ctx.class("rsa-field:within-rfc3110-limits");
            vensure!(got.is_ok(), "rsa_exponent_modulus:refuses-key-within-rfc3110-limits", "exponent {elen} octets, modulus {nlen} octets, min_len {min_len}: {:?}", got.as_ref().err());
            vensure!(rsa_encode(&e, &n) == field, "rsa_encode:differs-from-rfc3110", "exponent {elen} octets, modulus {nlen} octets");
        } else {
            ctx.class("rsa-field:shorter-than-callers-minimum");
            vensure!(got.is_err(), "rsa_exponent_modulus:accepts-modulus-below-minimum", "modulus {nlen} octets, min_len {min_len}");
        }
        // the backend's verification key (PublicKey::from_dnskey asks for
        // at least 1024 bits)
        if (alg == 8 || alg == 10) && (128..=512).contains(&nlen) {
            ctx.class("rsa-field:from_dnskey");
            let pk = PublicKey::from_dnskey(&dk);
            vensure!(pk.is_ok(), "from_dnskey:refuses-rsa-key-within-rfc3110-limits", "exponent {elen} octets, modulus {nlen} octets: {:?}", pk.as_ref().err());
            // and gives the same key field back
            let rpk = domain::crypto::ring::PublicKey::from_dnskey(&dk);
            vensure!(rpk.is_ok(), "from_dnskey:refuses-rsa-key-within-rfc3110-limits", "ring backend: exponent {elen} octets, modulus {nlen} octets: {:?}", rpk.as_ref().err());
            let back = rpk.unwrap().dnskey(256);
            vensure!(back.public_key().as_slice() == &field[..] && back.algorithm().to_int() == alg, "from_dnskey:dnskey-round-trip-differs", "exponent {elen} octets, modulus {nlen} octets");
        }
    } else {
        ctx.class("rsa-field:outside-rfc3110-limits");
    }
    Ok(())
}

//------------ fixture sweep -----------------------------------------------------------------------------------

fn n_fixtures(_thorough: bool) -> u64 {
    keys::FIXTURES.len() as u64
}

fn run_fixture(data: &[u8], ctx: &mut Ctx) -> CaseResult {
    let i = data.first().copied().unwrap_or(0) as usize % keys::FIXTURES.len();
    if i == 0 {
        if let Err(e) = rf::self_test() {
            vfail!("selfcheck:reference-vectors", "{e}");
        }
        ctx.class("reference-self-test");
    }
    let l = &keys::loaded()[i];
    ctx.sample(|| format!("fixture {}", l.fx.name));
    ctx.nontrivial(&l.fx.name);
    ctx.class(format!("fixture-alg:{}", l.kf.alg));
    // library parse == independent parse
    let d = l.lib.data();
    vensure!(d.flags() == l.kf.flags && d.protocol() == l.kf.proto && d.algorithm().to_int() == l.kf.alg && d.public_key().as_slice() == &l.kf.key[..], "fixtures:parse_from_bind-differs", "{}", l.fx.name);
    vensure!(gn::lower(&gn::from_name(l.lib.owner())) == gn::lower(&l.kf.owner), "fixtures:parse_from_bind-owner", "{}", l.fx.name);
    let rd = rf::dnskey_rdata(l.kf.flags, l.kf.proto, l.kf.alg, &l.kf.key);
    vensure!(rf::key_tag(&rd) == Some(l.fx.file_tag), "selfcheck:reference-key-tag-vs-file-name", "{}: {:?}", l.fx.name, rf::key_tag(&rd));
    vensure!(d.key_tag() == l.fx.file_tag, "keytag:differs-from-key-file-name", "{}: key_tag() = {}", l.fx.name, d.key_tag());
    if let Some(ds) = l.fx.ds_text {
        let ds = rf::parse_ds_file(ds);
        vensure!(!ds.is_empty(), "selfcheck:ds-file", "{}", l.fx.name);
        for x in ds {
            vensure!(x.key_tag == l.fx.file_tag && x.alg == l.kf.alg, "selfcheck:ds-file", "{}", l.fx.name);
            let Some(want) = rf::ds_digest(&l.kf.owner, &rd, x.digest_type) else { continue };
            vensure!(want == x.digest, "selfcheck:reference-ds-vs-ds-file", "{} digest type {}", l.fx.name, x.digest_type);
            match d.digest(l.lib.owner(), DigestAlgorithm::from_int(x.digest_type)) {
                Ok(got) => vensure!(got.as_ref() == &x.digest[..], "ds-digest:differs-from-ds-file", "{} digest type {}", l.fx.name, x.digest_type),
                Err(e) => vfail!("ds-digest:supported-type-refused", "{}: {e}", l.fx.name),
            }
            ctx.class(format!("ds-file-digest-type:{}", x.digest_type));
        }
    }
    // loadability: the ring backend documents RSASHA256 (>= 2048 bit),
    // RSASHA512, both ECDSA curves and Ed25519
    if l.fx.signs {
        vensure!(l.pair.is_some(), "keys:fixture-not-loadable", "{}: {:?}", l.fx.name, l.pair_err);
        let p = l.pair.as_ref().unwrap();
        vensure!(p.algorithm().to_int() == l.kf.alg, "keys:keypair-algorithm", "{}", l.fx.name);
        vensure!(p.dnskey() == *d, "keys:dnskey-of-keypair-differs-from-key-file", "{}", l.fx.name);
        // raw sign / verify round trip with both verifiers
        let msg = b"C12 fixture round trip";
        let sig = match p.sign_raw(msg) {
            Ok(s) => s,
            Err(_) => vfail!("keys:sign_raw-fails", "{}", l.fx.name),
        };
        vensure!(sig.algorithm().to_int() == l.kf.alg, "keys:signature-algorithm", "{}", l.fx.name);
        vensure!(rf::verify(l.kf.alg, &l.kf.key, msg, sig.as_ref()) == Ok(true), "keys:sign_raw-not-verifiable", "{}", l.fx.name);
        ctx.class("fixture-signs");
    } else {
        ctx.class(if l.pair.is_some() { "fixture-unexpectedly-loadable" } else { "fixture-not-for-ring-signing" });
    }
    Ok(())
}

//------------ registration -----------------------------------------------------------------------------------------

fn health(c: &BTreeMap<String, u64>, thorough: bool) -> Result<(), String> {
    let need = |k: &str, n: u64| -> Result<(), String> {
        if c.get(k).copied().unwrap_or(0) < n {
            Err(format!("class {k} starved ({} < {n})", c.get(k).copied().unwrap_or(0)))
        } else {
            Ok(())
        }
    };
    let s = if thorough { 10 } else { 1 };
    for a in [8, 10, 13, 14, 15] {
        need(&format!("alg:{a}"), 200 * s)?;
    }
    // RSA key sizes: 2048, 3072 and 4096 bit (the RFC 3110 limit)
    for k in ["rsa-modulus-octets:256", "rsa-modulus-octets:384", "rsa-modulus-octets:512"] {
        need(k, 100 * s)?;
    }
    for k in ["ds-owner:chain", "ds-owner:ParsedName-compressed", "ds-owner:ParsedName-uncompressed", "ds-owner:has-upper-case"] {
        need(k, 500 * s)?;
    }
    for k in ["rsa-field:modulus-octets:512", "rsa-field:modulus-octets:511", "rsa-field:exponent-octets:512", "rsa-field:within-rfc3110-limits", "rsa-field:from_dnskey", "rsa-field:shorter-than-callers-minimum", "rsa-field:outside-rfc3110-limits"] {
        need(k, 50 * s)?;
    }
    for k in [
        "hist:from-vec", "hist:from_iter", "hist:new", "hist:extend", "hist:sorted_extend", "hist:insert", "hist:remove_all", "hist:remove_first",
        "hist:batch-brings-record-sorting-before-stored-one-of-same-rrset", "hist:batch-brings-record-already-stored", "hist:adding-steps-on-non-empty:2", "hist:adding-steps-on-non-empty:3",
        "zone:rrsig-verified", "zone:rrsig-verified-over-several-records", "zone:two-keys", "zone:rrset-at-cut", "zone:rrset-below-cut", "zone:out-of-zone-rrset", "zone:signed-rrsets:4",
    ] {
        need(k, 100 * s)?;
    }
    // RRsets with differing TTLs reach every signing route and are judged
    // (refused as documented, or signed and then checked like any other)
    need("mixed-ttl:given", 1000 * s)?;
    need("mixed-ttl:first-record-differs", 200 * s)?;
    for r in ["SignRrset", "SortedIn", "SortedRecords", "Zone"] {
        need(&format!("mixed-ttl:route:{r}"), 100 * s)?;
    }
    for t in ["reorder", "owner-case", "embedded-name-case", "ttl-decremented", "ttl-raised", "wildcard-expansion", "name-compression", "signer-name-case"] {
        need(&format!("t:{t}"), 100 * s)?;
    }
    for k in [
        "alt:rrsig-type-covered", "alt:rrsig-algorithm", "alt:rrsig-labels", "alt:rrsig-original-ttl", "alt:rrsig-expiration", "alt:rrsig-inception", "alt:rrsig-key-tag", "alt:rrsig-signer-name",
        "alt:signature-bit", "alt:signature-bit-ecdsa-r", "alt:signature-bit-ecdsa-s", "alt:public-key-bit", "alt:rdata-bit", "alt:owner-label", "alt:owner-not-under-closest-encloser", "alt:owner-label-count", "alt:record-type",
        "alt:record-class", "alt:record-removed", "alt:record-added",
    ] {
        need(k, 30 * s)?;
    }
    for k in ["owner:wildcard", "owner:root", "owner:apex", "owner:deep-127", "owner:wildcard-127", "owner:mixed-case", "refused:rrsig-rrset", "refused:expiration-before-inception", "period-across-2^32-wrap", "validate-input:ParsedName", "validate-input:flat", "sign-input:ParsedName", "route:SignRrset", "route:SortedIn", "route:SortedRecords", "route:Zone", "sign:duplicates-given-to-SortedRecords", "keytag:carry", "keytag:carry-out-of-fold", "keytag:odd-length", "fixture-signs", "reference-self-test"] {
        need(k, if k.starts_with("fixture") || k.starts_with("reference") { 1 } else { 30 * s })?;
    }
    for t in rr::ZONE_TYPES {
        if *t != rr::RRSIG {
            need(&format!("type:{}", rr::mnemonic(*t)), 20 * s)?;
        }
    }
    Ok(())
}

pub fn prop() -> Option<Prop> {
    Some(Prop {
        id: "C12",
        rule: "sign-verify: a generated RRset (owner shape, type over all zone types + unknown codes, class, TTL - one for the RRset or differing between its records -, 1..8 records pairwise different as DNS data, validity period, key/algorithm, signer route) is non-trivial iff it has >= 2 records or a wildcard owner or an upper-case letter in an embedded name that RFC 6840 5.1 lists, AND at least one resolver-side transformation was really applied (the received RRset differs from the signed one), or iff its records carry differing TTLs and the signer's reaction (documented refusal, or an RRSIG that is then checked) was judged; distinct by (decoded case, transformation mask). keytag-ds cases are distinct by (flags, protocol, algorithm, key, owner). zone-history: a generated zone (1..4 owners incl. wildcard, delegation, glue and out-of-zone names; 1..3 types each; 1..4 records each plus case variants) put into one SortedRecords by a history of 1..4 batches (From<Vec>/from_iter/new, extend, sorted_extend, insert, remove_all/first) is non-trivial iff at least one adding step met a non-empty container and at least 2 records remain. rsa-key-field: non-trivial iff exponent and modulus are within the RFC 3110 limits (1..=512 octets, no leading zero).",
        assumptions: &[
            "trusted: ring::digest and ring::signature primitives (shared with the library's ring backend); the reference builds the signed octets, parses the public key field and calls ring itself",
            "fixture keys from /repo/test-data/dnssec-keys (one key per algorithm) plus three RSA keys made with openssl for the other sizes ring signs with (3072 bit with a 33-bit exponent, 4096 bit for RSASHA256 and for RSASHA512); ECDSA signatures use ring's SystemRandom, the verdicts do not depend on the random nonce",
            "an RRset handed to the signer has no two records that are equal as DNS data (RFC 2181 5: that is not an RRset; names compared case-insensitively, also where the DNSSEC canonical form keeps the case); duplicates (exact, or differing in the case of owner / RFC 6840 5.1 names) are only given to SortedRecords, which removes them",
            "sign_sorted_rrset_in gets its records in RFC 4034 6.3 order (documented precondition)",
            "an RRset whose records carry differing TTLs (one case in eight with >= 2 records, all four routes) may be refused - Rrset::new* panics with 'TTLs should be the same' (Changelog 0.12.1: 'currently panics. At least this prevents bad signatures') or SigningError::MultipleTtlValues - but an RRSIG that is returned for it must pass every check with the Original TTL the signer chose",
            "records are built by the library's message parser from generated wire data; RDATA the parser refuses is out of scope here (C05)",
        ],
        subchecks: vec![
            SubCheck::new("sign-verify", run_sign, 100_000, 400_000, 1200),
            SubCheck::new("keytag-ds", run_keytag, 30_000, 300_000, 400),
            SubCheck::new("zone-history", zone::run_zone, 15_000, 150_000, 600),
            SubCheck::new("rsa-key-field", run_rsa_field, 10_000, 100_000, 64),
            SubCheck::sweep("fixtures", run_fixture, n_fixtures),
        ],
        health: Some(health),
        extra: None,
    })
}
