//! Sub-check `zone-history`: a small generated zone (several owners, types,
//! RRsets, duplicates in other case) is put into ONE `SortedRecords` object
//! by a generated history of operations (`From<Vec>`, `from_iter`, `new`,
//! `extend`, `SortedExtend::sorted_extend`, `insert`, the two remove
//! functions), in batches whose boundaries fall anywhere — also inside an
//! RRset. After every step the container must hold exactly the model's
//! records in the order of RFC 4034 §6.1–§6.3 (what the `Sorter` trait
//! documents and what `sign_sorted_zone_records` relies on without sorting
//! again). At the end the zone is signed with `sign_sorted_zone_records`
//! (one or two keys) and every RRSIG returned must (a) carry a signature
//! over the independent RFC 4034 §3.1.8.1 octets, (b) verify with
//! `RrsigExt::signed_data` + `verify_signed_data` when the RRset is received
//! through a message in another order; the RRsets RFC 4035 §2.2 wants signed
//! are signed exactly once per key, glue / out-of-zone data / NS at a cut
//! are not.
use super::*;
use domain::base::rdata::ComposeRecordData;
use domain::base::iana::Class;
use domain::dnssec::sign::records::DefaultSorter;
use domain::dnssec::sign::traits::SortedExtend;
use std::collections::BTreeSet;

type SR = SortedRecords<NB, ZoneRecordData<Bytes, NB>>;

/// RFC 4034 §6.1: labels compared right to left, each as a lower-cased
/// octet string; a missing label sorts first.
pub(super) fn ref_name_cmp(a: &Labels, b: &Labels) -> Ordering {
    let mut ia = a.iter().rev();
    let mut ib = b.iter().rev();
    loop {
        match (ia.next(), ib.next()) {
            (None, None) => return Ordering::Equal,
            (None, Some(_)) => return Ordering::Less,
            (Some(_), None) => return Ordering::Greater,
            (Some(x), Some(y)) => {
                let lx: Vec<u8> = x.iter().map(|c| c.to_ascii_lowercase()).collect();
                let ly: Vec<u8> = y.iter().map(|c| c.to_ascii_lowercase()).collect();
                match lx.cmp(&ly) {
                    Ordering::Equal => {}
                    o => return o,
                }
            }
        }
    }
}

fn at_or_below(name: &Labels, anc: &Labels) -> bool {
    let (n, s) = (gn::lower(name), gn::lower(anc));
    n.len() >= s.len() && n[n.len() - s.len()..] == s[..]
}

#[derive(Clone, Debug, Hash)]
enum HOp {
    /// indices into the list of library records
    FromVec(Vec<usize>),
    FromIter(Vec<usize>),
    New,
    Extend(Vec<usize>),
    SortedExtend(Vec<usize>),
    Inserts(Vec<usize>),
    /// pool record whose owner (and type) is removed; class / rtype given or None
    RemoveAll { of: usize, class: bool, rtype: bool },
    RemoveFirst { of: usize, class: bool, rtype: bool },
}

#[derive(Debug, Hash)]
struct ZCase {
    key_idx: usize,
    key2: Option<usize>,
    signer: Labels,
    class: u16,
    inc: u32,
    exp: u32,
    /// the zone's records, pairwise different as DNS data
    pool: Vec<WireRR>,
    /// further spellings of pool records (owner case, case of RFC 6840 §5.1
    /// names): (pool index, record)
    variants: Vec<(usize, WireRR)>,
    ops: Vec<HOp>,
    tseed: u64,
}

fn decode(u: &mut Unstructured, thorough: bool) -> ZCase {
    let key_idx = match pick(u, 20) {
        0..=12 => 0,
        13..=16 => 1,
        17 => 2,
        18 => 3,
        _ => 4,
    };
    let key2 = if chance(u, 64) { Some(if key_idx == 0 { 1 } else { 0 }) } else { None };
    let n_owner = 1 + pick(u, if thorough { 7 } else { 4 });
    let n_batches = 1 + pick(u, 4);
    let init = pick(u, 3);
    let tseed = u64_(u);
    let dseed = u64_(u);
    let hseed = u64_(u);
    let sub = |i: u64| if dseed == 0 { 0 } else { fnv(&(dseed, i)) };
    let class = gm::class(u);
    let inc = u32_(u);
    let exp = inc.wrapping_add(u32_(u) >> 1);
    let signer = apex(u);
    // owners / types and the history come from expanded streams (seeds read
    // above), so that short inputs still vary every dimension; a zero seed
    // gives the simplest choice everywhere
    let obuf = expand(sub(100_000), 2048);
    let mut ou = Unstructured::new(&obuf);
    let hbuf = expand(hseed, 2048);
    let mut hu = Unstructured::new(&hbuf);
    let u = &mut ou;
    // --- owners
    let mut owners: Vec<Labels> = vec![];
    for _ in 0..n_owner {
        let room = |l: &Labels| 255usize.saturating_sub(gn::wire_len(l));
        let mut o = signer.clone();
        match pick(u, 10) {
            0 | 1 => {}
            2 | 3 | 4 | 9 => {
                if room(&o) >= 8 && o.len() < 120 {
                    o.insert(0, plain_label(u));
                }
            }
            5 => {
                if flag(u) && room(&o) >= 10 && o.len() < 120 {
                    o.insert(0, plain_label(u));
                }
                if room(&o) >= 2 && o.len() < 126 {
                    o.insert(0, b"*".to_vec());
                }
            }
            6 | 7 => {
                // below an owner that is already there (glue below a cut,
                // or simply a deeper name)
                if !owners.is_empty() {
                    o = owners[pick(u, owners.len())].clone();
                }
                if room(&o) >= 8 && o.len() < 120 {
                    o.insert(0, plain_label(u));
                }
            }
            _ => {
                // out of zone: sibling of the apex or unrelated
                if o.is_empty() || flag(u) {
                    o = vec![plain_label(u), b"elsewhere".to_vec()];
                } else {
                    let last = o.len() - 1;
                    o[last] = plain_label(u);
                }
            }
        }
        if !owners.iter().any(|x| gn::lower(x) == gn::lower(&o)) {
            owners.push(o);
        }
    }
    // --- RRsets
    let mut name_pool: Vec<Labels> = owners.clone();
    name_pool.push(signer.clone());
    name_pool.push(vec![b"MAIL".to_vec(), b"Example".to_vec()]);
    let mut pool: Vec<WireRR> = vec![];
    let mut ctr = 0u64;
    for o in &owners {
        let n_types = 1 + pick(u, 3);
        let mut types: Vec<u16> = vec![];
        for _ in 0..n_types {
            let t = match pick(u, 12) {
                0 | 1 => rr::A,
                2 | 3 => rr::NS,
                4 => 16,
                5 => 15,
                6 => 43,
                7 => 47,
                _ => grd::rtype(u, true),
            };
            if !types.contains(&t) {
                types.push(t);
            }
        }
        for t in types {
            let ttl = gm::ttl(u);
            let n = 1 + pick(u, 4);
            let mut keys: Vec<Vec<u8>> = vec![];
            for _ in 0..n {
                ctr += 1;
                let rb = expand(sub(ctr), 2048);
                let mut ru = Unstructured::new(&rb);
                let rd = grd::rdata(&mut ru, t, &name_pool, grd::Opts { plain_names: false, max_blob: 32 });
                if rr::canonical_rdata(t, &rd).is_ok() {
                    let k = dns_eq_key(t, &rd);
                    if !keys.contains(&k) {
                        keys.push(k);
                        let owner = if flag(u) { gn::swap_case(o, u) } else { o.clone() };
                        pool.push(WireRR { owner, rtype: t, class, ttl, rdata: rd });
                    }
                }
            }
        }
    }
    // --- other spellings of the same records
    let mut variants: Vec<(usize, WireRR)> = vec![];
    if !pool.is_empty() {
        for _ in 0..pick(u, 4) {
            let i = pick(u, pool.len());
            let mut d = pool[i].clone();
            if flag(u) {
                d.owner = gn::swap_case(&d.owner, u);
                d.rdata = swap_case_embedded(u, d.rtype, &d.rdata);
            }
            variants.push((i, d));
        }
    }
    // --- the history: every library record goes into one batch; later
    // batches may bring records again
    let u = &mut hu;
    let total = pool.len() + variants.len();
    let mut batches: Vec<Vec<usize>> = vec![vec![]; n_batches];
    for i in 0..total {
        let b = pick(u, n_batches);
        batches[b].push(i);
    }
    for b in batches.iter_mut().skip(1) {
        if total > 0 {
            for _ in 0..pick(u, 3) {
                b.push(pick(u, total));
            }
        }
    }
    for b in batches.iter_mut() {
        for i in (1..b.len()).rev() {
            let j = pick(u, i + 1);
            b.swap(i, j);
        }
    }
    let mut ops: Vec<HOp> = vec![];
    for (bi, b) in batches.into_iter().enumerate() {
        if bi == 0 {
            match init {
                0 => ops.push(HOp::FromVec(b)),
                1 => ops.push(HOp::FromIter(b)),
                _ => {
                    ops.push(HOp::New);
                    ops.push(batch_op(u, b));
                }
            }
        } else {
            if !pool.is_empty() && chance(u, 56) {
                let of = pick(u, pool.len());
                let (class, rtype) = (flag(u), chance(u, 200));
                ops.push(if flag(u) { HOp::RemoveAll { of, class, rtype } } else { HOp::RemoveFirst { of, class, rtype } });
            }
            ops.push(batch_op(u, b));
        }
    }
    ZCase { key_idx, key2, signer, class, inc, exp, pool, variants, ops, tseed }
}

fn batch_op(u: &mut Unstructured, b: Vec<usize>) -> HOp {
    match pick(u, 4) {
        0 | 1 => HOp::Extend(b),
        2 => HOp::SortedExtend(b),
        _ => HOp::Inserts(b),
    }
}

fn show(c: &ZCase) -> String {
    let mut s = format!("key={} key2={:?} apex={} class={} inc={} exp={} pool=[", keys::FIXTURES[c.key_idx].name, c.key2.map(|k| keys::FIXTURES[k].name), gn::show(&c.signer), c.class, c.inc, c.exp);
    for (i, r) in c.pool.iter().enumerate() {
        s.push_str(&format!("{i}:{} {} ", gn::show(&r.owner), rr::mnemonic(r.rtype)));
    }
    s.push_str(&format!("] variants={:?} ops={:?}", c.variants.iter().map(|v| v.0).collect::<Vec<_>>(), c.ops));
    s
}

/// (lower-cased owner, type, DNS-equality key of the RDATA)
type RecKey = (Labels, u16, Vec<u8>);

fn key_of_wire(r: &WireRR) -> RecKey {
    (gn::lower(&r.owner), r.rtype, dns_eq_key(r.rtype, &r.rdata))
}

fn key_of_lib(r: &RecF) -> RecKey {
    let mut rd: Vec<u8> = vec![];
    r.data().compose_rdata(&mut rd).expect("Vec never fails");
    let t = r.rtype().to_int();
    (gn::lower(&gn::from_name(r.owner())), t, dns_eq_key(t, &rd))
}

/// Compares the container with the model. Err((signature, detail)).
fn compare(sr: &SR, model: &BTreeSet<usize>, pool: &[WireRR], pool_keys: &[RecKey], after: &str) -> Result<(), (String, String)> {
    let mut want: Vec<usize> = model.iter().copied().collect();
    want.sort_by(|&a, &b| {
        let (ra, rb) = (&pool[a], &pool[b]);
        ref_name_cmp(&ra.owner, &rb.owner).then(ra.rtype.cmp(&rb.rtype)).then_with(|| rr::canonical_rdata(ra.rtype, &ra.rdata).unwrap().cmp(&rr::canonical_rdata(rb.rtype, &rb.rdata).unwrap()))
    });
    let mut got: Vec<usize> = vec![];
    for r in sr.iter() {
        let k = key_of_lib(r);
        match pool_keys.iter().position(|p| *p == k) {
            Some(i) => got.push(i),
            None => return Err((format!("sortedrecords:holds-record-never-given:after-{after}"), format!("{} {}", gn::show(&k.0), rr::mnemonic(k.1)))),
        }
    }
    if got == want {
        return Ok(());
    }
    let mut gs = got.clone();
    gs.sort();
    let mut ws = want.clone();
    ws.sort();
    if gs.windows(2).any(|w| w[0] == w[1]) {
        return Err((format!("sortedrecords:duplicate-kept:after-{after}"), format!("container holds pool records {got:?}, model {want:?}")));
    }
    if gs != ws {
        let lost = ws.iter().any(|i| !gs.contains(i));
        return Err((format!("sortedrecords:{}:after-{after}", if lost { "record-lost" } else { "record-not-removed" }), format!("container holds pool records {got:?}, model {want:?}")));
    }
    Err((format!("sortedrecords:not-in-canonical-order:after-{after}"), format!("container order {got:?}, RFC 4034 6.1-6.3 order {want:?}")))
}

pub(super) fn run_zone(data: &[u8], ctx: &mut Ctx) -> CaseResult {
    let mut u0 = Unstructured::new(data);
    let case = decode(&mut u0, ctx.thorough);
    let c = &case;
    ctx.sample(|| show(c));
    if c.pool.is_empty() {
        ctx.class("zone:empty");
        return Ok(());
    }
    let tbuf = expand(c.tseed, 4096);
    let mut tu = Unstructured::new(&tbuf);
    let u = &mut tu;

    // --- library records: pool then variants, through a message
    let mut wires: Vec<WireRR> = c.pool.clone();
    let mut ids: Vec<usize> = (0..c.pool.len()).collect();
    for (i, v) in &c.variants {
        wires.push(v.clone());
        ids.push(*i);
    }
    let compress_in = flag(u);
    let (bytes, _) = build_msg(u, None, &wires, compress_in);
    let parsed = match parse_msg(bytes, false) {
        Ok(p) => p,
        Err(_) => {
            ctx.class("zone:lib-parser-refuses-generated");
            return Ok(());
        }
    };
    vensure!(parsed.recs.len() == wires.len(), "selfcheck:parse-count", "parsed {} of {}", parsed.recs.len(), wires.len());
    let lib: Vec<RecF> = flatten(&parsed.recs);
    let pool_keys: Vec<RecKey> = c.pool.iter().map(key_of_wire).collect();
    for (i, r) in lib.iter().enumerate() {
        vensure!(key_of_lib(r) == pool_keys[ids[i]], "selfcheck:zone-record-identity", "library record {i} does not render as pool record {}", ids[i]);
    }

    // --- the history
    let mut sr: SR = SortedRecords::new();
    let mut model: BTreeSet<usize> = BTreeSet::new();
    let mut deferred: Option<Violation> = None;
    let mut adds = 0;
    let take = |b: &Vec<usize>| -> Vec<RecF> { b.iter().map(|&i| lib[i].clone()).collect() };
    for op in &c.ops {
        // evidence: a batch that brings a record of an RRset of which the
        // container already holds a record that sorts after it
        if let HOp::Extend(b) | HOp::SortedExtend(b) | HOp::Inserts(b) = op {
            let splits = b.iter().any(|&i| {
                let n = &c.pool[ids[i]];
                let nc = rr::canonical_rdata(n.rtype, &n.rdata).unwrap();
                model.iter().any(|&m| {
                    let s = &c.pool[m];
                    m != ids[i] && gn::lower(&s.owner) == gn::lower(&n.owner) && s.rtype == n.rtype && rr::canonical_rdata(s.rtype, &s.rdata).unwrap() > nc
                })
            });
            if splits {
                ctx.class("hist:batch-brings-record-sorting-before-stored-one-of-same-rrset");
            }
            if b.iter().any(|&i| model.contains(&ids[i])) {
                ctx.class("hist:batch-brings-record-already-stored");
            }
            if !b.is_empty() && !model.is_empty() {
                adds += 1;
            }
        }
        let name = match op {
            HOp::FromVec(b) => {
                sr = SortedRecords::from(take(b));
                model = b.iter().map(|&i| ids[i]).collect();
                "from-vec"
            }
            HOp::FromIter(b) => {
                sr = take(b).into_iter().collect();
                model = b.iter().map(|&i| ids[i]).collect();
                "from_iter"
            }
            HOp::New => {
                sr = SortedRecords::new();
                model.clear();
                "new"
            }
            HOp::Extend(b) => {
                sr.extend(take(b));
                model.extend(b.iter().map(|&i| ids[i]));
                "extend"
            }
            HOp::SortedExtend(b) => {
                SortedExtend::<NB, Bytes, DefaultSorter>::sorted_extend(&mut sr, take(b));
                model.extend(b.iter().map(|&i| ids[i]));
                "sorted_extend"
            }
            HOp::Inserts(b) => {
                for &i in b {
                    let was = model.contains(&ids[i]);
                    let res = sr.insert(lib[i].clone());
                    if res.is_ok() && was && deferred.is_none() {
                        deferred = Some(Violation::new("sortedrecords:insert-accepts-record-already-stored", format!("pool record {}", ids[i])));
                    }
                    model.insert(ids[i]);
                }
                "insert"
            }
            HOp::RemoveAll { of, class, rtype } | HOp::RemoveFirst { of, class, rtype } => {
                let all = matches!(op, HOp::RemoveAll { .. });
                let r = &c.pool[*of];
                let name = gn::to_name_bytes(&gn::swap_case(&r.owner, u));
                let cl = if *class { Some(Class::from_int(r.class)) } else { None };
                let rt = if *rtype { Some(Rtype::from_int(r.rtype)) } else { None };
                let matching: Vec<usize> = model.iter().copied().filter(|&m| gn::lower(&c.pool[m].owner) == gn::lower(&r.owner) && (!*rtype || c.pool[m].rtype == r.rtype)).collect();
                let ret = if all { sr.remove_all_by_name_class_rtype(&name, cl, rt) } else { sr.remove_first_by_name_class_rtype(&name, cl, rt) };
                if ret == matching.is_empty() && deferred.is_none() {
                    deferred = Some(Violation::new(format!("sortedrecords:remove-return-value:{}", if all { "all" } else { "first" }), format!("returned {ret} with {} matching records stored", matching.len())));
                }
                if all {
                    for m in &matching {
                        model.remove(m);
                    }
                    "remove_all"
                } else {
                    // which of the matching records goes is not specified:
                    // observe it
                    if !matching.is_empty() {
                        let have: Vec<RecKey> = sr.iter().map(key_of_lib).collect();
                        let gone: Vec<usize> = matching.iter().copied().filter(|&m| !have.contains(&pool_keys[m])).collect();
                        if gone.len() == 1 {
                            model.remove(&gone[0]);
                        } else if deferred.is_none() {
                            deferred = Some(Violation::new("sortedrecords:remove_first-removed-not-one", format!("{} of {} matching records removed", gone.len(), matching.len())));
                            for g in gone {
                                model.remove(&g);
                            }
                        }
                    }
                    "remove_first"
                }
            }
        };
        ctx.class(format!("hist:{name}"));
        if deferred.is_none() {
            if let Err((sig, detail)) = compare(&sr, &model, &c.pool, &pool_keys, name) {
                deferred = Some(Violation::new(sig, detail));
            }
        }
    }
    ctx.class(format!("hist:adding-steps-on-non-empty:{}", adds.min(3)));

    // --- model RRsets
    let mut sets: Vec<(Labels, u16, Vec<usize>)> = vec![];
    for &m in &model {
        let r = &c.pool[m];
        let lo = gn::lower(&r.owner);
        match sets.iter_mut().find(|s| s.0 == lo && s.1 == r.rtype) {
            Some(s) => s.2.push(m),
            None => sets.push((lo, r.rtype, vec![m])),
        }
    }
    if sets.is_empty() {
        ctx.class("zone:empty-after-history");
        return match deferred {
            Some(v) => Err(v),
            None => Ok(()),
        };
    }

    // --- sign
    let mut kidx = vec![c.key_idx];
    if let Some(k) = c.key2 {
        kidx.push(k);
        ctx.class("zone:two-keys");
    }
    let apexname = gn::to_name_bytes(&c.signer);
    let mut skeys: Vec<SigningKey<Bytes, KRef>> = vec![];
    for &k in &kidx {
        let lk = &keys::loaded()[k];
        vensure!(lk.pair.is_some(), "keys:fixture-not-loadable", "{}: {:?}", lk.fx.name, lk.pair_err);
        skeys.push(SigningKey::new(apexname.clone(), lk.kf.flags, KRef(lk.pair.as_ref().unwrap())));
    }
    let krefs: Vec<&SigningKey<Bytes, KRef>> = skeys.iter().collect();
    let cfg = GenerateRrsigConfig::new(Timestamp::from(c.inc), Timestamp::from(c.exp));
    let sigs = match sign_sorted_zone_records(&apexname, sr.owner_rrs(), &krefs[..], &cfg) {
        Ok(v) => v,
        Err(e) => vfail!("zone:refused-valid-zone", "{}", err_kind(&e)),
    };

    // --- every RRSIG made must be right and must verify
    let la = gn::lower(&c.signer);
    let mut count: BTreeMap<(usize, usize), usize> = BTreeMap::new();
    for rec in &sigs {
        let (owner, class, ttl, f, sig) = sig_out(rec);
        let lo = gn::lower(&owner);
        let Some(si) = sets.iter().position(|s| s.0 == lo && s.1 == f.type_covered) else {
            vfail!("zone:rrsig-for-rrset-not-in-zone", "RRSIG at {} covering {}", gn::show(&owner), rr::mnemonic(f.type_covered));
        };
        let set = &sets[si];
        let Some(kpos) = kidx.iter().position(|&k| keys::loaded()[k].kf.alg == f.alg) else {
            vfail!("rrsig:algorithm", "RRSIG algorithm {} is none of the keys'", f.alg);
        };
        *count.entry((si, kpos)).or_insert(0) += 1;
        let lk = &keys::loaded()[kidx[kpos]];
        let first = &c.pool[set.2[0]];
        let want_tag = rf::key_tag(&rf::dnskey_rdata(lk.kf.flags, 3, lk.kf.alg, &lk.kf.key)).expect("not algorithm 1");
        let want = rf::SigFields { type_covered: set.1, alg: lk.kf.alg, labels: rf::rrsig_labels(&first.owner), orig_ttl: first.ttl, exp: c.exp, inc: c.inc, key_tag: want_tag, signer: c.signer.clone() };
        vensure!(class == c.class, "rrsig:class", "RRSIG class {class} for zone class {}", c.class);
        vensure!(ttl == first.ttl, "rrsig:ttl", "RRSIG TTL {ttl} for RRset TTL {}", first.ttl);
        vensure!(f.labels == want.labels, "rrsig:labels", "labels field {} for owner {}", f.labels, gn::show(&first.owner));
        vensure!(f.orig_ttl == want.orig_ttl, "rrsig:original-ttl", "original TTL {} for RRset TTL {}", f.orig_ttl, want.orig_ttl);
        vensure!(f.exp == want.exp && f.inc == want.inc, "rrsig:validity-period", "inc/exp {}/{} want {}/{}", f.inc, f.exp, want.inc, want.exp);
        vensure!(f.key_tag == want.key_tag, "rrsig:key-tag", "key tag {} want {}", f.key_tag, want.key_tag);
        vensure!(gn::lower(&f.signer) == la, "rrsig:signer-name", "signer {} want {}", gn::show(&f.signer), gn::show(&c.signer));
        let members: Vec<WireRR> = set.2.iter().map(|&m| c.pool[m].clone()).collect();
        let ref_sd = match rf::signed_data(&want, &members.iter().map(|r| r.rr()).collect::<Vec<_>>()) {
            Ok(x) => x,
            Err(e) => vfail!("selfcheck:reference-signed-data", "{e}"),
        };
        match rf::verify(lk.kf.alg, &lk.kf.key, &ref_sd, &sig) {
            Ok(true) => {}
            Ok(false) => vfail!(format!("zone:signature-not-over-rfc4034-octets:{}", rr::mnemonic(set.1)), "RRSIG at {} covering {} ({} records) made by sign_sorted_zone_records does not verify (ring, raw key) over the RFC 4034 3.1.8.1 octets; container check said: {:?}", gn::show(&owner), rr::mnemonic(set.1), members.len(), deferred.as_ref().map(|v| v.sig.clone())),
            Err(e) => vfail!("selfcheck:reference-verify", "{e}"),
        }
        // a resolver gets the RRset in some order through a message
        let mut recv = members.clone();
        for i in (1..recv.len()).rev() {
            let j = pick(u, i + 1);
            recv.swap(i, j);
        }
        let sv = SigVal { f: f.clone(), sig: sig.clone() };
        let dnskey = lk.pair.as_ref().unwrap().dnskey();
        let compress = flag(u);
        let parsed_form = compress || flag(u);
        let out = match lib_validate(u, &recv, &sv, &first.owner, &dnskey, compress, parsed_form) {
            Ok(o) => o,
            Err(e) => vfail!("selfcheck:received-message-not-parsed", "{e}"),
        };
        vensure!(out.buf == ref_sd, format!("signed_data:differs-from-rfc4034:{}", rr::mnemonic(set.1)), "signed_data() for a zone RRset differs from the reference at {:?}", first_diff(&out.buf, &ref_sd));
        vensure!(out.verify.is_ok(), "verify:own-signature-rejected", "RRSIG at {} covering {} made by sign_sorted_zone_records: {:?}", gn::show(&owner), rr::mnemonic(set.1), out.verify);
        ctx.class("zone:rrsig-verified");
        if members.len() >= 2 {
            ctx.class("zone:rrsig-verified-over-several-records");
        }
    }

    // --- which RRsets are signed (RFC 4035 2.2)
    let cuts: Vec<Labels> = sets.iter().filter(|s| s.1 == rr::NS && s.0 != la && at_or_below(&s.0, &la)).map(|s| s.0.clone()).collect();
    let mut signed_sets = 0;
    for (si, s) in sets.iter().enumerate() {
        let in_zone = at_or_below(&s.0, &la);
        let at_apex = s.0 == la;
        let at_cut = cuts.iter().any(|x| *x == s.0);
        let below_cut = cuts.iter().any(|x| *x != s.0 && at_or_below(&s.0, x));
        let t = s.1;
        let must_not = !in_zone || t == rr::RRSIG || below_cut || (at_cut && t == rr::NS);
        let must = in_zone && !below_cut && t != rr::RRSIG && if at_cut { t == 43 || t == 47 } else { !(at_apex && (t == rr::DNSKEY || t == rr::CDS || t == rr::CDNSKEY)) };
        if !in_zone {
            ctx.class("zone:out-of-zone-rrset");
        }
        if below_cut {
            ctx.class("zone:rrset-below-cut");
        }
        if at_cut {
            ctx.class("zone:rrset-at-cut");
        }
        for kpos in 0..kidx.len() {
            let n = count.get(&(si, kpos)).copied().unwrap_or(0);
            if must_not {
                vensure!(n == 0, "zone:signed-what-must-not-be-signed", "{n} RRSIGs for {} {} (in_zone={in_zone} below_cut={below_cut} at_cut={at_cut})", gn::show(&s.0), rr::mnemonic(t));
            }
            if must {
                vensure!(n == 1, "zone:rrset-not-signed-once", "{n} RRSIGs for authoritative RRset {} {}; container check said: {:?}", gn::show(&s.0), rr::mnemonic(t), deferred.as_ref().map(|v| v.sig.clone()));
            }
            vensure!(n <= 1, "zone:rrset-not-signed-once", "{n} RRSIGs for one RRset and one key");
        }
        if must {
            signed_sets += 1;
        }
    }
    ctx.class(format!("zone:signed-rrsets:{}", signed_sets.min(4)));
    if let Some(v) = deferred {
        return Err(v);
    }
    if adds >= 1 && model.len() >= 2 {
        ctx.nontrivial(&case);
    }
    Ok(())
}
