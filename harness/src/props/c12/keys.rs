//! Fixture keys (copies of /repo/test-data/dnssec-keys in
//! /verif/fixtures/c12-keys). The texts are compiled in so that a run never
//! depends on the working directory; they are parsed by the library's BIND
//! format parsers (the code under test) and, independently, by
//! `reference::parse_key_file`.
use super::reference as rf;
use domain::base::{Name, Record};
use domain::crypto::sign::{KeyPair, SecretKeyBytes};
use domain::dnssec::common::parse_from_bind;
use domain::rdata::Dnskey;
use std::sync::OnceLock;

pub struct Fixture {
    pub name: &'static str,
    pub key_text: &'static str,
    pub private_text: Option<&'static str>,
    pub ds_text: Option<&'static str>,
    /// key tag according to the file name (written by the tool that made the key)
    pub file_tag: u16,
    /// the ring backend is documented to support this algorithm for signing
    pub signs: bool,
}

macro_rules! fx {
    ($base:literal, $tag:expr, $signs:expr, private, ds) => {
        Fixture { name: $base, key_text: include_str!(concat!("../../../../fixtures/c12-keys/", $base, ".key")), private_text: Some(include_str!(concat!("../../../../fixtures/c12-keys/", $base, ".private"))), ds_text: Some(include_str!(concat!("../../../../fixtures/c12-keys/", $base, ".ds"))), file_tag: $tag, signs: $signs }
    };
    ($base:literal, $tag:expr, $signs:expr, private) => {
        Fixture { name: $base, key_text: include_str!(concat!("../../../../fixtures/c12-keys/", $base, ".key")), private_text: Some(include_str!(concat!("../../../../fixtures/c12-keys/", $base, ".private"))), ds_text: None, file_tag: $tag, signs: $signs }
    };
    ($base:literal, $tag:expr, $signs:expr) => {
        Fixture { name: $base, key_text: include_str!(concat!("../../../../fixtures/c12-keys/", $base, ".key")), private_text: None, ds_text: None, file_tag: $tag, signs: $signs }
    };
}

/// Index 0..=4 are the signing keys (order = case weighting: cheap first);
/// 9..=11 are further RSA signing keys (see below).
pub static FIXTURES: [Fixture; 12] = [
    fx!("Ktest.+015+56037", 56037, true, private, ds),
    fx!("Ktest.+013+42253", 42253, true, private, ds),
    fx!("Ktest.+014+33566", 33566, true, private, ds),
    fx!("Ktest.+008+60616", 60616, true, private, ds),
    fx!("Ktest.+010+46731", 46731, true, private),
    fx!("Ktest.+005+00439", 439, false, private, ds),
    fx!("Ktest.+007+22204", 22204, false, private, ds),
    fx!("Ktest.+016+07379", 7379, false, private, ds),
    fx!("Ktest-ttl.+008+60616", 60616, false),
    // RSA keys of the other sizes ring signs with (the modulus must be a
    // multiple of 1024 bits: 2048, 3072, 4096). Made with `openssl genpkey`
    // and written in BIND format by a script (the .ds files by the same
    // script: SHA-256 over lower-cased owner | RDATA). 4096 bits is the
    // RFC 3110 limit: exponent and modulus "are each limited to 4096 bits".
    // Index 9: RSASHA256 4096 bit; 10: RSASHA256 3072 bit with a 33-bit
    // public exponent (5 octets); 11: RSASHA512 4096 bit.
    fx!("Ktest.+008+34161", 34161, true, private, ds),
    fx!("Ktest.+008+51738", 51738, true, private, ds),
    fx!("Ktest.+010+17775", 17775, true, private, ds),
];
/// Indices of the additional signing keys (after the non-signing fixtures).
pub const BIG_RSA: [usize; 3] = [9, 10, 11];
pub const N_SIGNING: usize = 5;

pub struct Loaded {
    pub fx: &'static Fixture,
    /// independent parse of the .key file
    pub kf: rf::KeyFile,
    /// the library's parse of the .key file
    pub lib: Record<Name<Vec<u8>>, Dnskey<Vec<u8>>>,
    /// key pair with the flags of the file (None: not loadable by ring)
    pub pair: Option<KeyPair>,
    pub pair_err: Option<String>,
}

pub fn load_pair(fx: &Fixture, public: &Dnskey<Vec<u8>>) -> Result<KeyPair, String> {
    let text = fx.private_text.ok_or("no private key file")?;
    let sec = SecretKeyBytes::parse_from_bind(text).map_err(|e| format!("parse_from_bind(private): {e}"))?;
    KeyPair::from_bytes(&sec, public).map_err(|e| format!("KeyPair::from_bytes: {e}"))
}

pub fn loaded() -> &'static Vec<Loaded> {
    static L: OnceLock<Vec<Loaded>> = OnceLock::new();
    L.get_or_init(|| {
        FIXTURES
            .iter()
            .map(|fx| {
                let kf = rf::parse_key_file(fx.key_text).expect("fixture .key file readable by the reference parser");
                let lib = parse_from_bind::<Vec<u8>>(fx.key_text).expect("fixture .key file readable by the library");
                let (pair, pair_err) = match load_pair(fx, lib.data()) {
                    Ok(p) => (Some(p), None),
                    Err(e) => (None, Some(e)),
                };
                Loaded { fx, kf, lib, pair, pair_err }
            })
            .collect()
    })
}
