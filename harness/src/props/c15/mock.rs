//! In-process mock peers for C15: a scripted datagram peer behind a mock
//! `AsyncConnect`, and a scripted stream peer behind `tokio::io::duplex`.
//!
//! Everything a peer receives and emits is written to one ordered event log
//! (`World::inner.events`); the oracles in `mod.rs` only look at that log
//! and at the results handed to the callers.
use crate::refimpl::wire;
use domain::net::client::protocol::{AsyncConnect, AsyncDgramRecv, AsyncDgramSend};
use std::collections::{BTreeMap, BinaryHeap};
use std::future::Future;
use std::io;
use std::pin::Pin;
use std::sync::{Arc, Mutex};
use std::task::{Context, Poll};
use tokio::io::{AsyncReadExt, AsyncWriteExt, DuplexStream, ReadBuf};
use tokio::sync::mpsc;
use tokio::time::{sleep, sleep_until, Duration, Instant};

pub type Labels = Vec<Vec<u8>>;

//------------ Script ----------------------------------------------------------

#[derive(Clone, Debug, PartialEq, Eq, Hash)]
pub enum Kind {
    /// Correct reply: QR, same ID, question copied, one answer record.
    Good,
    /// Correct but truncated: TC set, no answer.
    Tc,
    /// Header-only error reply (12 octets) with the given non-zero RCODE.
    HdrErr(u8),
    /// Correct question, other ID (0: id^1, 1: id+1, 2: id^0x0100, 3: the ID
    /// of another request this peer connection has seen).
    WrongId(u8),
    /// Right ID, question (and answer) of another request.
    WrongQ,
    /// Right ID and question but QR clear.
    NotResp,
    /// Fewer than 12 octets.
    Garbage(u8),
    /// Datagram only: the (correct) reply to this request is delivered to
    /// another request's socket.
    Cross,
    /// Datagram only: the socket reports a receive error.
    RecvErr,
    /// Stream only: close the connection (0: both directions, 1: only the
    /// peer's sending side).
    Close(u8),
    /// Stream only: length prefix larger than the data that follows, then
    /// close.
    BadLen,
    /// Stream only: message `.1` of the response stream to AXFR request `.0`.
    Xfr(u8, u8),
}

#[derive(Clone, Debug, PartialEq, Eq, Hash)]
pub struct Emit {
    /// Milliseconds after the peer received the request.
    pub delay: u32,
    pub kind: Kind,
    /// Send an identical copy this many milliseconds later (stream: 0 means
    /// in the same write as the original).
    pub dup: Option<u32>,
    /// Stream only: split the framed reply after this many octets (0: no
    /// split) and wait `gap` ms before the rest.
    pub split: u16,
    pub gap: u32,
}

#[derive(Clone, Debug, Default, PartialEq, Eq, Hash)]
pub struct ReqScript {
    /// attempts[k] is played the k-th time this upstream sees the request
    /// (the last entry repeats).
    pub attempts: Vec<Vec<Emit>>,
}

impl ReqScript {
    pub fn attempt(&self, k: u32) -> &[Emit] {
        if self.attempts.is_empty() {
            return &[];
        }
        let k = (k as usize).min(self.attempts.len() - 1);
        &self.attempts[k]
    }
}

#[derive(Clone, Debug, Default, PartialEq, Eq, Hash)]
pub struct UpScript {
    /// Per request.
    pub reqs: Vec<ReqScript>,
    /// Datagram connects (0-based count per upstream) that fail.
    pub dg_fail_connect: Vec<u32>,
    /// Stream connects (0-based) that fail.
    pub st_fail_connect: Vec<u32>,
    /// Delay of a stream connect in ms.
    pub st_connect_delay: u32,
    /// Size of the in-memory pipe in each direction.
    pub st_buf: usize,
    /// Stream only: the peer reads slowly (TCP back-pressure). Each entry
    /// is (offset in the octet stream the peer receives on a connection,
    /// pause in ms): having consumed `offset` octets the peer does not read
    /// for `pause` ms (it keeps sending what is due). Sorted by offset.
    pub st_read_stalls: Vec<(u32, u32)>,
}

/// One message of a scripted AXFR response stream.
#[derive(Clone, Debug, PartialEq, Eq, Hash)]
pub struct XfrMsg {
    /// Milliseconds after the previous message of the stream (or after the
    /// peer received the request).
    pub delay: u32,
    /// Number of A records in the message.
    pub recs: u8,
    /// Later messages may leave the question section empty (RFC 5936 2.2).
    pub with_q: bool,
    pub split: u16,
    pub gap: u32,
    /// Send an identical copy this many milliseconds later (0: in the same
    /// write as the original).
    pub dup: Option<u32>,
}

/// What the caller asks for and how the peer answers.
#[derive(Clone, Copy, Debug, Default, PartialEq, Eq, Hash)]
pub enum XfrForm {
    /// AXFR request, AXFR response stream.
    #[default]
    Axfr,
    /// IXFR request answered with a full zone (RFC 1995, section 4: SOA,
    /// records, SOA).
    IxfrFull,
    /// IXFR request answered with the single SOA of an up-to-date zone.
    IxfrUpToDate,
    /// IXFR request answered with one difference sequence:
    /// SOA(new) SOA(old) deletions SOA(new) additions SOA(new).
    IxfrDiff,
}

impl XfrForm {
    pub fn qtype(self) -> u16 {
        if self == XfrForm::Axfr {
            QTYPE_AXFR
        } else {
            QTYPE_IXFR
        }
    }
}

#[derive(Clone, Debug, Default, PartialEq, Eq, Hash)]
pub struct XfrScript {
    pub msgs: Vec<XfrMsg>,
    /// The peer stops before the final message (the one with the closing SOA).
    pub stall: bool,
    pub form: XfrForm,
}

pub const QTYPE_AXFR: u16 = 252;
pub const QTYPE_IXFR: u16 = 251;

/// Serial of the zone the peer serves for transfer `k` / the serial an IXFR
/// request says it has.
pub fn xfr_serial_new(k: usize) -> u32 {
    1000 + k as u32
}
pub fn xfr_serial_old(k: usize) -> u32 {
    900 + k as u32
}

/// Octets of message `j` of `total` of the response stream of transfer `k`.
#[allow(clippy::too_many_arguments)]
pub fn build_xfr(name: &Labels, k: usize, j: usize, total: usize, id: u16, eid: u32, with_q: bool, recs: u8, form: XfrForm) -> Vec<u8> {
    let mut a = wire::Asm::new(id, 0x8400);
    if j == 0 || with_q {
        a.question(name, form.qtype(), CLASS_IN);
    }
    let soa_rd = |serial: u32| {
        let mut soa = vec![0u8, 0u8];
        soa.extend_from_slice(&serial.to_be_bytes());
        for v in [3600u32, 600, 86400, 60] {
            soa.extend_from_slice(&v.to_be_bytes());
        }
        soa
    };
    let new = soa_rd(xfr_serial_new(k));
    let old = soa_rd(xfr_serial_old(k));
    let last = j + 1 == total;
    let mut nth = 0u8;
    let mut a_recs = |a: &mut wire::Asm, n: u8| {
        for _ in 0..n {
            let mut rd = eid.to_be_bytes();
            rd[0] = nth;
            nth = nth.wrapping_add(1);
            a.record(1, name, QTYPE_A, CLASS_IN, 60, &rd);
        }
    };
    match form {
        XfrForm::Axfr | XfrForm::IxfrFull => {
            if j == 0 {
                a.record(1, name, 6, CLASS_IN, 60, &new);
            }
            // The client transport takes a first IXFR response message that
            // holds nothing but one SOA for the complete "up to date" answer
            // (documented in check_stream): a full zone in several messages
            // has a second record in its first message.
            let n = if form == XfrForm::IxfrFull && j == 0 && !last { recs.max(1) } else { recs };
            a_recs(&mut a, n);
            if last {
                a.record(1, name, 6, CLASS_IN, 60, &new);
            }
        }
        XfrForm::IxfrUpToDate => {
            a.record(1, name, 6, CLASS_IN, 60, &new);
        }
        XfrForm::IxfrDiff => {
            if j == 0 {
                a.record(1, name, 6, CLASS_IN, 60, &new);
                a.record(1, name, 6, CLASS_IN, 60, &old);
            }
            if j == 1 {
                a.record(1, name, 6, CLASS_IN, 60, &new);
            }
            a_recs(&mut a, recs);
            if total == 1 {
                a.record(1, name, 6, CLASS_IN, 60, &new);
                a_recs(&mut a, recs);
            }
            if last {
                a.record(1, name, 6, CLASS_IN, 60, &new);
            }
        }
    }
    a.buf
}

//------------ Log -------------------------------------------------------------

#[derive(Clone, Copy, Debug, PartialEq, Eq, Hash, PartialOrd, Ord)]
pub enum Leg {
    Dg,
    St,
}

#[derive(Clone, Debug)]
pub enum What {
    /// `bytes`: the message as the peer read it (one datagram / one frame).
    Recv { req: Option<usize>, id: u16, attempt: u32, bytes: Vec<u8> },
    /// A message (or garbage) handed to the client side. For streams `done`
    /// is set when the last octet has been written.
    Emit { eid: u32, for_req: usize, attempt: u32, idx: usize, kind: Kind, bytes: Vec<u8>, done: Option<u64>, delivered: bool },
    /// After this event nothing on this connection can be relied upon.
    Poison(&'static str),
    ConnectFail,
    ConnectOk,
}

#[derive(Clone, Debug)]
pub struct Ev {
    /// Microseconds of virtual time since the start of the case.
    pub t: u64,
    pub up: usize,
    pub leg: Leg,
    /// Datagram: socket number; stream: connection number (per upstream).
    pub conn: usize,
    pub what: What,
}

#[derive(Default)]
pub struct Inner {
    pub events: Vec<Ev>,
    pub next_eid: u32,
    pub attempts: BTreeMap<(usize, Leg, usize), u32>,
    pub dg_connects: Vec<u32>,
    pub st_connects: Vec<u32>,
    /// All datagram sockets ever created: (upstream, sender to the socket).
    pub dg_socks: Vec<(usize, mpsc::UnboundedSender<Result<Vec<u8>, ()>>)>,
}

pub struct World {
    pub t0: Instant,
    pub names: Vec<Labels>,
    pub ups: Vec<UpScript>,
    /// AXFR requests (stream sub-check only): request number `names.len() + k`.
    pub xfr_names: Vec<Labels>,
    pub xfr: Vec<XfrScript>,
    pub inner: Mutex<Inner>,
}

impl World {
    pub fn new(names: Vec<Labels>, ups: Vec<UpScript>) -> Arc<Self> {
        Self::with_xfr(names, ups, vec![], vec![])
    }
    pub fn with_xfr(names: Vec<Labels>, ups: Vec<UpScript>, xfr_names: Vec<Labels>, xfr: Vec<XfrScript>) -> Arc<Self> {
        let n = ups.len();
        Arc::new(World {
            t0: Instant::now(),
            names,
            ups,
            xfr_names,
            xfr,
            inner: Mutex::new(Inner { dg_connects: vec![0; n], st_connects: vec![0; n], ..Default::default() }),
        })
    }
    pub fn now(&self) -> u64 {
        Instant::now().duration_since(self.t0).as_micros() as u64
    }
    pub fn at(&self, us: u64) -> Instant {
        self.t0 + Duration::from_micros(us)
    }
    fn log(&self, up: usize, leg: Leg, conn: usize, what: What) -> usize {
        let t = self.now();
        let mut g = self.inner.lock().unwrap();
        g.events.push(Ev { t, up, leg, conn, what });
        g.events.len() - 1
    }
    /// Which request does this (query) message belong to? Decided by the
    /// question name with the independent walker.
    pub fn owner_of(&self, msg: &[u8]) -> Option<usize> {
        let w = wire::walk(msg)?;
        let q = w.questions.first()?;
        if q.qtype == QTYPE_AXFR || q.qtype == QTYPE_IXFR {
            return self.xfr_names.iter().position(|n| *n == q.name).map(|k| self.names.len() + k);
        }
        self.names.iter().position(|n| *n == q.name)
    }
}

pub const QTYPE_A: u16 = 1;
pub const CLASS_IN: u16 = 1;

/// The name used in a wrong-question reply to request `i`.
pub fn other_name(names: &[Labels], i: usize) -> Labels {
    if names.len() > 1 {
        names[(i + 1) % names.len()].clone()
    } else {
        vec![b"zz".to_vec(), b"c15".to_vec(), b"test".to_vec()]
    }
}

/// Builds the octets of one scripted reply with the independent assembler.
/// `id` is the ID the peer received, `steal` the ID of another request this
/// connection has seen (if any).
pub fn build_reply(names: &[Labels], i: usize, id: u16, kind: &Kind, eid: u32, steal: Option<u16>) -> Vec<u8> {
    const RESP: u16 = 0x8180; // QR RD RA
    let good = |id: u16, flags: u16, name: &Labels, answer: bool| {
        let mut a = wire::Asm::new(id, flags);
        a.question(name, QTYPE_A, CLASS_IN);
        if answer {
            a.record(1, name, QTYPE_A, CLASS_IN, 60, &eid.to_be_bytes());
        }
        a.buf
    };
    match kind {
        Kind::Good | Kind::Cross => good(id, RESP, &names[i], true),
        Kind::Tc => good(id, RESP | 0x0200, &names[i], false),
        Kind::HdrErr(rc) => wire::Asm::new(id, RESP | (*rc as u16 & 0xF).max(1)).buf,
        Kind::WrongId(m) => {
            let wid = match m {
                0 => id ^ 1,
                1 => id.wrapping_add(1),
                2 => id ^ 0x0100,
                _ => match steal {
                    Some(s) if s != id => s,
                    _ => id ^ 1,
                },
            };
            good(wid, RESP, &names[i], true)
        }
        Kind::WrongQ => good(id, RESP, &other_name(names, i), true),
        Kind::NotResp => good(id, RESP & 0x7FFF, &names[i], true),
        Kind::Garbage(n) => {
            let n = (*n as usize).min(11);
            let full = good(id, RESP, &names[i], true);
            full[..n].to_vec()
        }
        Kind::RecvErr | Kind::Close(_) | Kind::BadLen | Kind::Xfr(..) => vec![],
    }
}

//------------ Datagram mock ----------------------------------------------------

#[derive(Clone)]
pub struct DgConnect {
    pub w: Arc<World>,
    pub up: usize,
}

impl std::fmt::Debug for DgConnect {
    fn fmt(&self, f: &mut std::fmt::Formatter<'_>) -> std::fmt::Result {
        write!(f, "DgConnect({})", self.up)
    }
}

pub struct DgSock {
    w: Arc<World>,
    up: usize,
    sock: usize,
    rx: Mutex<mpsc::UnboundedReceiver<Result<Vec<u8>, ()>>>,
}

impl AsyncConnect for DgConnect {
    type Connection = DgSock;
    type Fut = Pin<Box<dyn Future<Output = Result<DgSock, io::Error>> + Send + Sync>>;

    fn connect(&self) -> Self::Fut {
        let w = self.w.clone();
        let up = self.up;
        Box::pin(async move {
            let k = {
                let mut g = w.inner.lock().unwrap();
                let k = g.dg_connects[up];
                g.dg_connects[up] += 1;
                k
            };
            if w.ups[up].dg_fail_connect.contains(&k) {
                w.log(up, Leg::Dg, usize::MAX, What::ConnectFail);
                return Err(io::Error::new(io::ErrorKind::ConnectionRefused, "mock connect failure"));
            }
            let (tx, rx) = mpsc::unbounded_channel();
            let sock = {
                let mut g = w.inner.lock().unwrap();
                g.dg_socks.push((up, tx));
                g.dg_socks.len() - 1
            };
            Ok(DgSock { w, up, sock, rx: Mutex::new(rx) })
        })
    }
}

impl AsyncDgramRecv for DgSock {
    fn poll_recv(&self, cx: &mut Context<'_>, buf: &mut ReadBuf<'_>) -> Poll<Result<(), io::Error>> {
        let mut rx = self.rx.lock().unwrap();
        match rx.poll_recv(cx) {
            Poll::Ready(Some(Ok(b))) => {
                let n = b.len().min(buf.remaining());
                buf.put_slice(&b[..n]);
                Poll::Ready(Ok(()))
            }
            Poll::Ready(Some(Err(()))) => Poll::Ready(Err(io::Error::new(io::ErrorKind::ConnectionReset, "mock receive error"))),
            // The world keeps a sender, so the channel never closes.
            Poll::Ready(None) => Poll::Pending,
            Poll::Pending => Poll::Pending,
        }
    }
}

impl AsyncDgramSend for DgSock {
    fn poll_send(&self, _cx: &mut Context<'_>, buf: &[u8]) -> Poll<Result<usize, io::Error>> {
        let w = &self.w;
        let req = w.owner_of(buf);
        let id = wire::header(buf).map(|h| h.id).unwrap_or(0);
        let attempt = match req {
            Some(r) => {
                let mut g = w.inner.lock().unwrap();
                let a = g.attempts.entry((self.up, Leg::Dg, r)).or_insert(0);
                let v = *a;
                *a += 1;
                v
            }
            None => 0,
        };
        w.log(self.up, Leg::Dg, self.sock, What::Recv { req, id, attempt, bytes: buf.to_vec() });
        if let Some(r) = req {
            let script: Vec<Emit> = w.ups[self.up].reqs.get(r).map(|s| s.attempt(attempt).to_vec()).unwrap_or_default();
            if !script.is_empty() {
                let w = w.clone();
                let (up, sock) = (self.up, self.sock);
                let t_recv = w.now();
                tokio::spawn(async move {
                    // (time, order, idx, is_dup)
                    let mut items: Vec<(u64, usize, usize)> = vec![];
                    for (idx, e) in script.iter().enumerate() {
                        items.push((t_recv + e.delay as u64 * 1000, items.len(), idx));
                        if let Some(d) = e.dup {
                            items.push((t_recv + (e.delay as u64 + d as u64) * 1000, items.len(), idx));
                        }
                    }
                    items.sort();
                    let mut eids: BTreeMap<usize, u32> = BTreeMap::new();
                    for (t, _, idx) in items {
                        sleep_until(w.at(t)).await;
                        let e = &script[idx];
                        let mut g = w.inner.lock().unwrap();
                        let eid = *eids.entry(idx).or_insert_with(|| {
                            g.next_eid += 1;
                            g.next_eid
                        });
                        // target socket
                        let target = if e.kind == Kind::Cross {
                            let mut t = None;
                            for (s, (u, tx)) in g.dg_socks.iter().enumerate().rev() {
                                if *u == up && s != sock && !tx.is_closed() {
                                    t = Some(s);
                                    break;
                                }
                            }
                            t
                        } else {
                            Some(sock)
                        };
                        let Some(target) = target else { continue };
                        let tx = g.dg_socks[target].1.clone();
                        let now = w.now();
                        if e.kind == Kind::RecvErr {
                            let delivered = tx.send(Err(())).is_ok();
                            if delivered {
                                g.events.push(Ev { t: now, up, leg: Leg::Dg, conn: target, what: What::Poison("recv-error") });
                            }
                            continue;
                        }
                        let bytes = build_reply(&w.names, r, id, &e.kind, eid, None);
                        let delivered = tx.send(Ok(bytes.clone())).is_ok();
                        g.events.push(Ev {
                            t: now,
                            up,
                            leg: Leg::Dg,
                            conn: target,
                            what: What::Emit { eid, for_req: r, attempt, idx, kind: e.kind.clone(), bytes, done: Some(now), delivered },
                        });
                    }
                });
            }
        }
        Poll::Ready(Ok(buf.len()))
    }
}

//------------ Stream mock -------------------------------------------------------

struct Pending {
    due: u64,
    seq: u64,
    req: usize,
    id: u16,
    attempt: u32,
    idx: usize,
    emit: Emit,
    /// An identical copy of an earlier emission (same eid and octets).
    resend: Option<(u32, Vec<u8>, Kind)>,
}
impl PartialEq for Pending {
    fn eq(&self, o: &Self) -> bool {
        (self.due, self.seq) == (o.due, o.seq)
    }
}
impl Eq for Pending {}
impl PartialOrd for Pending {
    fn partial_cmp(&self, o: &Self) -> Option<std::cmp::Ordering> {
        Some(self.cmp(o))
    }
}
impl Ord for Pending {
    fn cmp(&self, o: &Self) -> std::cmp::Ordering {
        // BinaryHeap is a max-heap: reverse
        (o.due, o.seq).cmp(&(self.due, self.seq))
    }
}

/// Spawns the scripted peer for one stream connection.
pub fn spawn_stream_peer(w: Arc<World>, up: usize, conn: usize, server: DuplexStream) {
    let (rd, mut wr) = tokio::io::split(server);
    let mut stalls: Vec<(u64, u32)> = w.ups[up].st_read_stalls.iter().map(|(o, ms)| (*o as u64, *ms)).collect();
    stalls.sort();
    stalls.reverse();
    let mut rd = Paced { rd, consumed: 0, stalls };
    let (tx, mut rx) = mpsc::unbounded_channel::<Pending>();
    let (stop_tx, mut stop_rx) = mpsc::unbounded_channel::<()>();

    // reader
    let wr_w = w.clone();
    let w2 = w.clone();
    tokio::spawn(async move {
        let w = w2;
        let mut seq = 0u64;
        loop {
            let frame = tokio::select! {
                biased;
                _ = stop_rx.recv() => break,
                f = read_frame(&mut rd) => f,
            };
            let Some(frame) = frame else { break };
            let req = w.owner_of(&frame);
            let id = wire::header(&frame).map(|h| h.id).unwrap_or(0);
            let attempt = match req {
                Some(r) => {
                    let mut g = w.inner.lock().unwrap();
                    let a = g.attempts.entry((up, Leg::St, r)).or_insert(0);
                    let v = *a;
                    *a += 1;
                    v
                }
                None => 0,
            };
            w.log(up, Leg::St, conn, What::Recv { req, id, attempt, bytes: frame.clone() });
            if let Some(r) = req.filter(|r| *r >= w.names.len()) {
                let k = r - w.names.len();
                let sc = &w.xfr[k];
                let total = sc.msgs.len();
                let mut due = w.now();
                for (j, m) in sc.msgs.iter().enumerate() {
                    due += m.delay as u64 * 1000;
                    if sc.stall && j + 1 == total {
                        break;
                    }
                    seq += 1;
                    let _ = tx.send(Pending { due, seq, req: r, id, attempt, idx: j, emit: Emit { delay: 0, kind: Kind::Xfr(k as u8, j as u8), dup: m.dup, split: m.split, gap: m.gap }, resend: None });
                }
                continue;
            }
            if let Some(r) = req {
                let now = w.now();
                let script = w.ups[up].reqs.get(r).map(|s| s.attempt(attempt).to_vec()).unwrap_or_default();
                for (idx, e) in script.into_iter().enumerate() {
                    seq += 1;
                    let _ = tx.send(Pending { due: now + e.delay as u64 * 1000, seq, req: r, id, attempt, idx, emit: e, resend: None });
                }
            }
        }
        // dropping rd here (together with the writer's half) closes the pipe
    });

    // writer
    tokio::spawn(async move {
        let w = wr_w;
        let mut heap: BinaryHeap<Pending> = BinaryHeap::new();
        let mut rx_open = true;
        loop {
            let next_due = heap.peek().map(|p| p.due);
            if !rx_open && next_due.is_none() {
                break;
            }
            tokio::select! {
                biased;
                p = rx.recv(), if rx_open => {
                    match p {
                        Some(p) => heap.push(p),
                        None => rx_open = false,
                    }
                    continue;
                }
                _ = sleep_until(w.at(next_due.unwrap_or(0))), if next_due.is_some() => {}
            }
            let p = heap.pop().expect("due item");
            let e = &p.emit;
            match e.kind {
                Kind::Close(mode) => {
                    w.log(up, Leg::St, conn, What::Poison("close"));
                    let _ = wr.shutdown().await;
                    if mode == 0 {
                        let _ = stop_tx.send(());
                        break;
                    }
                    continue;
                }
                Kind::RecvErr => continue,
                _ => {}
            }
            let (eid, kind, bytes) = if let Some((eid, bytes, kind)) = p.resend.clone() {
                (eid, kind, bytes)
            } else {
                let (eid, steal) = {
                    let mut g = w.inner.lock().unwrap();
                    g.next_eid += 1;
                    let eid = g.next_eid;
                    // the ID of another request seen on this connection (latest)
                    let mut steal = None;
                    for ev in g.events.iter().rev() {
                        if ev.up == up && ev.leg == Leg::St && ev.conn == conn {
                            if let What::Recv { req: Some(r), id, .. } = &ev.what {
                                if *r != p.req && *id != p.id {
                                    steal = Some(*id);
                                    break;
                                }
                            }
                        }
                    }
                    (eid, steal)
                };
                let kind = if e.kind == Kind::Cross { Kind::WrongId(3) } else { e.kind.clone() };
                if kind == Kind::BadLen {
                    let bytes = build_reply(&w.names, p.req, p.id, &Kind::Good, eid, None);
                    w.log(up, Leg::St, conn, What::Poison("bad-length-prefix"));
                    let mut frame = ((bytes.len() + 7) as u16).to_be_bytes().to_vec();
                    frame.extend_from_slice(&bytes);
                    let _ = wr.write_all(&frame).await;
                    let _ = wr.shutdown().await;
                    let _ = stop_tx.send(());
                    break;
                }
                let bytes = if let Kind::Xfr(k, j) = kind {
                    let (k, j) = (k as usize, j as usize);
                    let m = &w.xfr[k].msgs[j];
                    build_xfr(&w.xfr_names[k], k, j, w.xfr[k].msgs.len(), p.id, eid, m.with_q, m.recs, w.xfr[k].form)
                } else {
                    build_reply(&w.names, p.req, p.id, &kind, eid, steal)
                };
                (eid, kind, bytes)
            };
            if bytes.len() < 12 {
                w.log(up, Leg::St, conn, What::Poison("short-frame"));
            }
            let mut frame = (bytes.len() as u16).to_be_bytes().to_vec();
            frame.extend_from_slice(&bytes);
            let mk = |done| What::Emit { eid, for_req: p.req, attempt: p.attempt, idx: p.idx, kind: kind.clone(), bytes: bytes.clone(), done, delivered: true };
            let mut evs = vec![w.log(up, Leg::St, conn, mk(None))];
            let mut out = frame.clone();
            let mut split = e.split as usize;
            if p.resend.is_some() {
                split = 0;
            } else {
                match e.dup {
                    Some(0) => {
                        // two replies in one segment
                        evs.push(w.log(up, Leg::St, conn, mk(None)));
                        out.extend_from_slice(&frame);
                    }
                    Some(d) => heap.push(Pending {
                        due: w.now() + d as u64 * 1000,
                        seq: p.seq,
                        req: p.req,
                        id: p.id,
                        attempt: p.attempt,
                        idx: p.idx,
                        emit: e.clone(),
                        resend: Some((eid, bytes.clone(), kind.clone())),
                    }),
                    None => {}
                }
            }
            let res = if split > 0 && split < out.len() {
                let r1 = wr.write_all(&out[..split]).await;
                if r1.is_ok() {
                    let _ = wr.flush().await;
                    sleep(Duration::from_millis(e.gap as u64)).await;
                    wr.write_all(&out[split..]).await
                } else {
                    r1
                }
            } else {
                wr.write_all(&out).await
            };
            if res.is_err() {
                w.log(up, Leg::St, conn, What::Poison("peer-write-failed"));
                let _ = stop_tx.send(());
                break;
            }
            let _ = wr.flush().await;
            let now = w.now();
            {
                let mut g = w.inner.lock().unwrap();
                for i in evs {
                    if let What::Emit { done, .. } = &mut g.events[i].what {
                        *done = Some(now);
                    }
                }
            }
        }
    });
}

/// The peer's reading side: reads the octet stream and pauses at the
/// scripted offsets (while it pauses the pipe fills up and the client's
/// writes are accepted only partially or not at all).
struct Paced {
    rd: tokio::io::ReadHalf<DuplexStream>,
    consumed: u64,
    /// (offset, pause ms), largest offset first.
    stalls: Vec<(u64, u32)>,
}

impl Paced {
    async fn read_exact(&mut self, buf: &mut [u8]) -> Option<()> {
        let mut filled = 0;
        while filled < buf.len() {
            let mut want = buf.len() - filled;
            while let Some(&(off, ms)) = self.stalls.last() {
                if off <= self.consumed {
                    self.stalls.pop();
                    sleep(Duration::from_millis(ms as u64)).await;
                } else {
                    want = want.min((off - self.consumed) as usize);
                    break;
                }
            }
            let n = self.rd.read(&mut buf[filled..filled + want]).await.ok()?;
            if n == 0 {
                return None;
            }
            filled += n;
            self.consumed += n as u64;
        }
        Some(())
    }
}

async fn read_frame(rd: &mut Paced) -> Option<Vec<u8>> {
    let mut l = [0u8; 2];
    rd.read_exact(&mut l).await?;
    let len = u16::from_be_bytes(l) as usize;
    let mut buf = vec![0u8; len];
    rd.read_exact(&mut buf).await?;
    Some(buf)
}

/// Mock stream connector: hands out fresh in-memory pipes, each with its
/// own scripted peer; some connects fail.
#[derive(Clone)]
pub struct StConnect {
    pub w: Arc<World>,
    pub up: usize,
}

impl std::fmt::Debug for StConnect {
    fn fmt(&self, f: &mut std::fmt::Formatter<'_>) -> std::fmt::Result {
        write!(f, "StConnect({})", self.up)
    }
}

impl AsyncConnect for StConnect {
    type Connection = DuplexStream;
    type Fut = Pin<Box<dyn Future<Output = Result<DuplexStream, io::Error>> + Send + Sync>>;

    fn connect(&self) -> Self::Fut {
        let w = self.w.clone();
        let up = self.up;
        Box::pin(async move {
            let k = {
                let mut g = w.inner.lock().unwrap();
                let k = g.st_connects[up];
                g.st_connects[up] += 1;
                k
            };
            let d = w.ups[up].st_connect_delay;
            if d > 0 {
                sleep(Duration::from_millis(d as u64)).await;
            }
            if w.ups[up].st_fail_connect.contains(&k) {
                w.log(up, Leg::St, k as usize, What::ConnectFail);
                return Err(io::Error::new(io::ErrorKind::ConnectionRefused, "mock connect failure"));
            }
            Ok(open_stream(&w, up, k as usize))
        })
    }
}

/// Creates one pipe with its peer; returns the client end.
pub fn open_stream(w: &Arc<World>, up: usize, conn: usize) -> DuplexStream {
    let (client, server) = tokio::io::duplex(w.ups[up].st_buf.max(1));
    w.log(up, Leg::St, conn, What::ConnectOk);
    spawn_stream_peer(w.clone(), up, conn, server);
    client
}
