//! C15 — client transports deliver each answer to its own request, exactly
//! once.
//!
//! Every case builds one client transport over in-process mock peers (see
//! `mock.rs`), issues N requests with pairwise distinct question names and
//! lets the peers play a generated fault script per request. Runtime: tokio
//! current-thread with a paused clock, so every timeout is virtual.
//!
//! Oracle (all from the statement of C15):
//! * every request future resolves within a virtual-time bound derived from
//!   the configured timeouts/retries (generous: twice the nominal budget plus
//!   5 s);
//! * `Ok(msg)`: QR set; ID is one the peer received for this request; the
//!   question is this request's (or the reply is an error without question);
//!   the octets are those of a reply a peer emitted *for this request*;
//! * completeness where the peers' log shows a timely acceptable reply and
//!   nothing that documents a failure before it;
//! * a truncated datagram answer is never handed out by `dgram_stream`, and
//!   the stream leg is used when it works;
//! * no panic in any task.
mod mock;

use crate::engine::*;
use crate::gen::*;
use crate::refimpl::wire;
use crate::{vensure, vfail};
use arbitrary::Unstructured;
use domain::base::iana::Class;
use domain::base::{MessageBuilder, Name, Rtype, Serial, Ttl};
use domain::rdata::Soa;
use domain::net::client::request::{RequestMessage, RequestMessageMulti, SendRequest, SendRequestMulti};
use domain::net::client::{dgram, dgram_stream, load_balancer, multi_stream, redundant, stream};
use mock::*;
use std::collections::{BTreeMap, BTreeSet};
use std::sync::{Arc, OnceLock};
use tokio::time::{sleep, sleep_until, timeout, Duration};

type Req = RequestMessage<Vec<u8>>;
type Sr = Arc<dyn SendRequest<Req> + Send + Sync>;

//------------ Case ------------------------------------------------------------

#[derive(Clone, Copy, Debug, PartialEq, Eq, Hash)]
enum Tr {
    Dgram,
    Stream,
    Multi,
    DgStream,
    Redundant,
    Lb,
    /// One stream connection carrying ordinary requests and AXFR requests
    /// (several responses per request).
    Xfr,
}

impl Tr {
    fn name(self) -> &'static str {
        match self {
            Tr::Dgram => "dgram",
            Tr::Stream => "stream",
            Tr::Multi => "multi_stream",
            Tr::DgStream => "dgram_stream",
            Tr::Redundant => "redundant",
            Tr::Lb => "load_balancer",
            Tr::Xfr => "stream_xfr",
        }
    }
}

#[derive(Clone, Copy, Debug, PartialEq, Eq, Hash)]
enum Issue {
    /// Milliseconds after the start of the case.
    At(u32),
    /// Milliseconds after the previous request completed.
    AfterPrev(u32),
}

#[derive(Clone, Debug, Hash)]
struct Case {
    tr: Tr,
    n: usize,
    issue: Vec<Issue>,
    init_id: u16,
    dg_rt: u32,
    dg_retries: u8,
    dg_maxpar: usize,
    dg_opt: bool,
    st_rt: u32,
    st_idle: u32,
    ms_rt: u32,
    defer_err: bool,
    defer_refused: bool,
    defer_servfail: bool,
    lb_burst: Option<u64>,
    /// Dgram/Stream/Multi: one entry. DgStream: [0] datagram leg, [1] stream
    /// leg. Redundant/Lb: one entry per upstream (all datagram).
    ups: Vec<UpScript>,
    /// AXFR/IXFR requests (Tr::Xfr only): issue time in ms and script.
    xfr: Vec<(u32, XfrScript)>,
    /// Per transfer: `true` = issued `xfr[k].0` ms after the previous
    /// transfer ended (that is what hands a finished transfer's ID to the
    /// next one), `false` = at the fixed time `xfr[k].0`.
    xfr_after_prev: Vec<bool>,
    /// Stream/Xfr: `Config::set_streaming_response_timeout` (ms) if called.
    st_srt: Option<u32>,
    /// Per transfer: `Some(m)` = the caller drops its request handle after
    /// it has got `m` messages of the response stream (0: it starts waiting
    /// for the first one, gives up after 1 ms and drops the handle) while
    /// the peer goes on sending; `None` = it reads the stream to its end.
    xfr_abandon: Vec<Option<u8>>,
}

const DELAYS: [u32; 11] = [0, 1, 3, 10, 40, 90, 250, 600, 1100, 2500, 6000];
const DUP_D: [u32; 6] = [0, 1, 20, 150, 700, 3000];
const GAPS: [u32; 5] = [0, 1, 30, 400, 2500];
const ISSUE_T: [u32; 8] = [0, 0, 1, 5, 50, 400, 1500, 4000];
const DG_RT: [u32; 5] = [100, 50, 300, 1000, 2000];
const ST_RT: [u32; 5] = [1000, 300, 2000, 5000, 19000];
const ST_IDLE: [u32; 4] = [10000, 0, 100, 1000];
const MS_RT: [u32; 4] = [2000, 500, 5000, 30000];
const ST_BUF: [usize; 4] = [65536, 64, 7, 1];
/// Separate streaming response timeout (None: only `set_response_timeout`).
const ST_SRT: [Option<u32>; 8] = [None, None, None, Some(600_000), Some(200), Some(60_000), Some(600_000), Some(5_000)];
/// Distance in octets between two pauses of a slowly reading stream peer
/// (a first request with the keepalive option is 46 octets on the wire, a
/// later one 31) and the length of a pause.
const STALL_GAP: [u32; 8] = [0, 46, 2, 20, 60, 77, 100, 200];
const STALL_MS: [u32; 5] = [30, 1, 400, 2500, 10];
const XFR_FORMS: [XfrForm; 8] = [XfrForm::Axfr, XfrForm::Axfr, XfrForm::IxfrDiff, XfrForm::IxfrFull, XfrForm::IxfrUpToDate, XfrForm::Axfr, XfrForm::IxfrDiff, XfrForm::IxfrFull];

fn dec_emit(u: &mut Unstructured, stream: bool) -> Emit {
    let kind = if stream {
        match pick(u, 20) {
            0..=6 => Kind::Good,
            7 => Kind::WrongId(3),
            8 => Kind::WrongQ,
            9 => Kind::HdrErr(1 + pick(u, 5) as u8),
            10 => Kind::WrongId(pick(u, 3) as u8),
            11 => Kind::Close(pick(u, 2) as u8),
            12 => Kind::NotResp,
            13 => Kind::Tc,
            14 => Kind::Garbage(pick(u, 12) as u8),
            15 => Kind::BadLen,
            16 => Kind::WrongId(1),
            17 => Kind::WrongQ,
            _ => Kind::Good,
        }
    } else {
        match pick(u, 20) {
            0..=6 => Kind::Good,
            7 => Kind::WrongId(pick(u, 3) as u8),
            8 => Kind::WrongQ,
            9 => Kind::HdrErr(1 + pick(u, 5) as u8),
            10 => Kind::Tc,
            11 => Kind::Cross,
            12 => Kind::NotResp,
            13 => Kind::Garbage(pick(u, 12) as u8),
            14 => Kind::RecvErr,
            15 => Kind::WrongQ,
            16 => Kind::WrongId(0),
            _ => Kind::Good,
        }
    };
    let delay = DELAYS[pick(u, DELAYS.len())];
    let f = byte(u);
    let dup = if f & 0x07 == 1 && !matches!(kind, Kind::Close(_) | Kind::BadLen | Kind::RecvErr) { Some(DUP_D[pick(u, DUP_D.len())]) } else { None };
    let (split, gap) = if stream && f & 0x38 == 0x08 { (1 + pick(u, 48) as u16, GAPS[pick(u, GAPS.len())]) } else { (0, 0) };
    Emit { delay, kind, dup, split, gap }
}

fn dec_req_script(u: &mut Unstructured, stream: bool, thorough: bool) -> ReqScript {
    let _ = thorough;
    let na = 1 + pick(u, 3);
    let mut attempts = vec![];
    for _ in 0..na {
        // 1,1,2,0,3 emissions: silence is possible but not the default
        let ne = [1usize, 1, 2, 0, 3, 1][pick(u, 6)];
        attempts.push((0..ne).map(|_| dec_emit(u, stream)).collect());
    }
    ReqScript { attempts }
}

fn dec_up(u: &mut Unstructured, n: usize, stream: bool, thorough: bool) -> UpScript {
    let mut up = UpScript { st_buf: 65536, ..Default::default() };
    up.reqs = (0..n).map(|_| dec_req_script(u, stream, thorough)).collect();
    let f = byte(u);
    if stream {
        up.st_buf = ST_BUF[pick(u, ST_BUF.len())];
        if f & 0x03 == 1 {
            up.st_fail_connect.push(pick(u, 3) as u32);
        }
        if f & 0x0c == 0x04 {
            up.st_fail_connect.push(pick(u, 4) as u32);
        }
        if f & 0x30 == 0x10 {
            up.st_connect_delay = [1u32, 20, 300, 1500][pick(u, 4)];
        }
    } else if f & 0x0f == 1 {
        up.dg_fail_connect.push(pick(u, 4) as u32);
    }
    up
}

fn decode(data: &[u8], tr: Tr, thorough: bool) -> Case {
    let mut u = Unstructured::new(data);
    // The decoding does not depend on the tier (replay files mean the same
    // in both); large request counts are rare in both tiers.
    let _ = thorough;
    let b = byte(&mut u);
    let n = if tr == Tr::Xfr {
        [1usize, 2, 0, 3, 4, 6][(b as usize * 6) >> 8]
    } else if b == 0xff {
        40
    } else if b >= 0xfb {
        20
    } else {
        [1usize, 2, 2, 3, 3, 4, 5, 6, 8, 12][(b as usize * 10) / 0xfb]
    };
    let mut issue = vec![];
    for i in 0..n {
        issue.push(match pick(&mut u, 4) {
            0 | 1 => Issue::At(0),
            2 => Issue::At(ISSUE_T[pick(&mut u, ISSUE_T.len())]),
            _ => {
                if i > 0 {
                    Issue::AfterPrev(ISSUE_T[pick(&mut u, ISSUE_T.len())])
                } else {
                    Issue::At(0)
                }
            }
        });
    }
    let init_id = u16_(&mut u);
    let dg_rt = DG_RT[pick(&mut u, DG_RT.len())];
    let dg_retries = pick(&mut u, 4) as u8;
    let dg_maxpar = [100usize, 1, 2, 3][pick(&mut u, 4)];
    let dg_opt = !chance(&mut u, 64);
    let st_rt = ST_RT[pick(&mut u, ST_RT.len())];
    let st_idle = ST_IDLE[pick(&mut u, ST_IDLE.len())];
    let ms_rt = MS_RT[pick(&mut u, MS_RT.len())];
    let f = byte(&mut u);
    let (defer_err, defer_refused, defer_servfail) = (f & 1 != 0, f & 2 != 0, f & 4 != 0);
    let lb_burst = if f & 0x30 == 0x10 { Some(pick(&mut u, 4) as u64) } else { None };
    let ups = match tr {
        Tr::Dgram => vec![dec_up(&mut u, n, false, thorough)],
        Tr::Stream | Tr::Multi | Tr::Xfr => vec![dec_up(&mut u, n, true, thorough)],
        Tr::DgStream => vec![dec_up(&mut u, n, false, thorough), dec_up(&mut u, n, true, thorough)],
        Tr::Redundant | Tr::Lb => {
            let k = 1 + pick(&mut u, 3);
            (0..k).map(|_| dec_up(&mut u, n, false, thorough)).collect()
        }
    };
    let mut xfr = vec![];
    if tr == Tr::Xfr {
        let nx = 1 + pick(&mut u, 2);
        for _ in 0..nx {
            let at = ISSUE_T[pick(&mut u, ISSUE_T.len())];
            let nm = 1 + pick(&mut u, 4);
            let mut msgs = vec![];
            for _ in 0..nm {
                let f = byte(&mut u);
                let (split, gap) = if f & 0x38 == 0x08 { (1 + pick(&mut u, 48) as u16, GAPS[pick(&mut u, GAPS.len())]) } else { (0, 0) };
                msgs.push(XfrMsg { delay: DELAYS[pick(&mut u, 9)], recs: (f & 3) as u8, with_q: f & 4 == 0, split, gap, dup: None });
            }
            let stall = chance(&mut u, 24);
            xfr.push((at, XfrScript { msgs, stall, form: XfrForm::Axfr }));
        }
    }
    let mut c = Case { tr, n, issue, init_id, dg_rt, dg_retries, dg_maxpar, dg_opt, st_rt, st_idle, ms_rt, defer_err, defer_refused, defer_servfail, lb_burst, ups, xfr, xfr_after_prev: vec![], st_srt: None, xfr_abandon: vec![] };
    // Dimensions added by the follow-up rounds are decoded last, and an
    // exhausted input selects the earlier behaviour, so that replay files
    // written before keep their meaning.
    if tr == Tr::Stream || tr == Tr::Xfr {
        c.st_srt = ST_SRT[pick(&mut u, ST_SRT.len())];
        let ns = [0usize, 0, 1, 1, 2, 3][pick(&mut u, 6)];
        let mut off = 0u32;
        for _ in 0..ns {
            off += STALL_GAP[pick(&mut u, STALL_GAP.len())];
            c.ups[0].st_read_stalls.push((off, STALL_MS[pick(&mut u, STALL_MS.len())]));
        }
    }
    if tr == Tr::Xfr {
        if pick(&mut u, 4) == 3 {
            // a third transfer
            let at = ISSUE_T[pick(&mut u, ISSUE_T.len())];
            let nm = 1 + pick(&mut u, 3);
            let mut msgs = vec![];
            for _ in 0..nm {
                let f = byte(&mut u);
                msgs.push(XfrMsg { delay: DELAYS[pick(&mut u, 9)], recs: (f & 3) as u8, with_q: f & 4 == 0, split: 0, gap: 0, dup: None });
            }
            c.xfr.push((at, XfrScript { msgs, stall: false, form: XfrForm::Axfr }));
        }
        for k in 0..c.xfr.len() {
            let f = byte(&mut u);
            c.xfr[k].1.form = XFR_FORMS[(f & 7) as usize];
            c.xfr_after_prev.push(k > 0 && f & 0x30 != 0);
            if c.xfr[k].1.form == XfrForm::IxfrUpToDate {
                // one message with one SOA
                c.xfr[k].1.msgs.truncate(1);
            }
            for m in &mut c.xfr[k].1.msgs {
                if pick(&mut u, 4) == 1 {
                    m.dup = Some(DUP_D[pick(&mut u, DUP_D.len())]);
                }
            }
        }
    }
    if tr == Tr::Xfr {
        // round 6: cancellation. The caller abandons a transfer (drops the
        // request handle) after some messages; the peer does not know and
        // keeps sending under the transfer's ID.
        for _ in 0..c.xfr.len() {
            c.xfr_abandon.push(if pick(&mut u, 3) == 1 { Some(pick(&mut u, 3) as u8) } else { None });
        }
    }
    if matches!(tr, Tr::Redundant | Tr::Lb | Tr::DgStream) {
        // queuing on the datagram semaphore is the subject of the dgram
        // sub-check; here every upstream request starts at once
        c.dg_maxpar = 100;
    }
    if tr == Tr::Stream || tr == Tr::Xfr {
        // a single connection: nothing to connect to
        c.ups[0].st_fail_connect.clear();
        c.ups[0].st_connect_delay = 0;
    }
    if tr == Tr::Xfr {
        // Replies with a deliberately different ID can carry the ID of a
        // running transfer, and the transport documents that it does not
        // compare the question of later messages of a transfer; forged IDs
        // are the subject of the `stream` sub-check.
        for r in &mut c.ups[0].reqs {
            for a in &mut r.attempts {
                for e in a {
                    if matches!(e.kind, Kind::WrongId(_)) {
                        e.kind = Kind::Good;
                    }
                }
            }
        }
    }
    c
}

fn xfr_names(n: usize) -> Vec<Labels> {
    (0..n).map(|i| vec![format!("z{i}").into_bytes(), b"c15".to_vec(), b"test".to_vec()]).collect()
}

fn names(n: usize) -> Vec<Labels> {
    (0..n).map(|i| vec![format!("q{i}").into_bytes(), b"c15".to_vec(), b"test".to_vec()]).collect()
}

fn render(c: &Case) -> String {
    let mut s = format!("{} n={} ", c.tr.name(), c.n);
    match c.tr {
        Tr::Dgram => s.push_str(&format!("rt={}ms retries={} maxpar={} ", c.dg_rt, c.dg_retries, c.dg_maxpar)),
        Tr::Stream | Tr::Xfr => {
            s.push_str(&format!("rt={}ms idle={}ms buf={} ", c.st_rt, c.st_idle, c.ups[0].st_buf));
            if let Some(t) = c.st_srt {
                s.push_str(&format!("streaming_rt={t}ms "));
            }
            if !c.ups[0].st_read_stalls.is_empty() {
                s.push_str(&format!("peer-read-stalls(octets,ms)={:?} ", c.ups[0].st_read_stalls));
            }
        }
        Tr::Multi => s.push_str(&format!("rt={}ms stream_rt={}ms idle={}ms failconn={:?} ", c.ms_rt, c.st_rt, c.st_idle, c.ups[0].st_fail_connect)),
        Tr::DgStream => s.push_str(&format!("udp rt={}ms retries={}; tcp rt={}ms ", c.dg_rt, c.dg_retries, c.ms_rt)),
        Tr::Redundant | Tr::Lb => s.push_str(&format!("upstreams={} rt={}ms retries={} defer={}{}{} burst={:?} ", c.ups.len(), c.dg_rt, c.dg_retries, c.defer_err as u8, c.defer_refused as u8, c.defer_servfail as u8, c.lb_burst)),
    }
    for (k, (at, x)) in c.xfr.iter().enumerate() {
        let when = if c.xfr_after_prev.get(k).copied().unwrap_or(false) { format!("AfterPrevXfr({at})") } else { format!("At({at})") };
        if x.form == XfrForm::Axfr {
            s.push_str(&format!("| axfr z{k} {when} stall={}: ", x.stall));
        } else {
            s.push_str(&format!("| ixfr({:?}) z{k} {when} stall={}: ", x.form, x.stall));
        }
        if let Some(Some(m)) = c.xfr_abandon.get(k) {
            s.push_str(&format!("caller-drops-handle-after-{m}-messages "));
        }
        for m in &x.msgs {
            s.push_str(&format!("[+{}ms recs={} q={} split{}/{}", m.delay, m.recs, m.with_q as u8, m.split, m.gap));
            if let Some(d) = m.dup {
                s.push_str(&format!(" +dup{d}"));
            }
            s.push_str("] ");
        }
    }
    for (ui, up) in c.ups.iter().enumerate() {
        for (i, r) in up.reqs.iter().enumerate() {
            s.push_str(&format!("| u{ui} q{i} {:?}: ", c.issue[i]));
            for (a, at) in r.attempts.iter().enumerate() {
                s.push_str(&format!("#{a}["));
                for e in at {
                    s.push_str(&format!("{:?}@{}", e.kind, e.delay));
                    if let Some(d) = e.dup {
                        s.push_str(&format!("+dup{d}"));
                    }
                    if e.split > 0 {
                        s.push_str(&format!("+split{}/{}", e.split, e.gap));
                    }
                    s.push(' ');
                }
                s.push(']');
            }
        }
    }
    s
}

//------------ Running a case ----------------------------------------------------

struct Outcome {
    /// None: did not resolve within the bound.
    res: Option<Result<Vec<u8>, String>>,
    t_issue: u64,
    t_done: u64,
    panicked: bool,
}

fn build_request(name: &Labels, id: u16) -> Req {
    let mut wirename = vec![];
    for l in name {
        wirename.push(l.len() as u8);
        wirename.extend_from_slice(l);
    }
    wirename.push(0);
    let name = Name::from_octets(wirename).expect("valid name");
    let mut mb = MessageBuilder::new_vec();
    mb.header_mut().set_rd(true);
    mb.header_mut().set_id(id);
    let mut qb = mb.question();
    qb.push((name, Rtype::A)).expect("push question");
    RequestMessage::new(qb.into_message()).expect("request message")
}

fn dg_config(c: &Case) -> dgram::Config {
    let mut cfg = dgram::Config::new();
    cfg.set_read_timeout(Duration::from_millis(c.dg_rt as u64));
    cfg.set_max_retries(c.dg_retries);
    cfg.set_max_parallel(c.dg_maxpar);
    if !c.dg_opt {
        cfg.set_udp_payload_size(None);
    }
    cfg
}

fn st_config(c: &Case) -> stream::Config {
    let mut cfg = stream::Config::new();
    cfg.set_response_timeout(Duration::from_millis(c.st_rt as u64));
    if let Some(t) = c.st_srt {
        cfg.set_streaming_response_timeout(Duration::from_millis(t as u64));
    }
    cfg.set_idle_timeout(Duration::from_millis(c.st_idle as u64));
    cfg
}

/// The response timeout (ms) configured for requests with a stream of
/// responses.
fn srt_eff(c: &Case) -> u32 {
    c.st_srt.unwrap_or(c.st_rt)
}

fn ms_config(c: &Case) -> multi_stream::Config {
    let mut cfg = multi_stream::Config::from(st_config(c));
    cfg.set_response_timeout(Duration::from_millis(c.ms_rt as u64));
    cfg
}

/// Longest time (ms) a peer keeps acting after it received a request.
fn peer_span(c: &Case) -> u64 {
    let mut m = 0u64;
    for up in &c.ups {
        for r in &up.reqs {
            for a in &r.attempts {
                // emissions of one attempt are written one after the other
                let mut s = 0u64;
                let mut d = 0u64;
                for e in a {
                    d = d.max(e.delay as u64 + e.dup.unwrap_or(0) as u64);
                    s += e.gap as u64;
                }
                m = m.max(d + s);
            }
        }
    }
    for (_, x) in &c.xfr {
        m = m.max(x.msgs.iter().map(|m| m.delay as u64 + m.gap as u64).sum::<u64>() + x.msgs.iter().map(|m| m.dup.unwrap_or(0) as u64).max().unwrap_or(0));
    }
    m
}

/// Virtual-time bound (ms) for one request, counted from the moment it is
/// issued: twice the nominal budget of the transport plus 5 s.
fn bound_ms(c: &Case) -> u64 {
    bound_with(c, c.st_rt.max(srt_eff(c)))
}

/// The same with `st_t` ms as the response timeout of the stream
/// connection (the connection has two: one for ordinary requests, one for
/// requests with a stream of responses).
fn bound_with(c: &Case, st_t: u32) -> u64 {
    let n = (c.n + c.xfr.len()) as u64;
    let dg_per = (c.dg_retries as u64 + 1) * c.dg_rt as u64;
    let span = peer_span(c);
    let issue_sum: u64 = c.issue.iter().map(|i| match i { Issue::At(t) | Issue::AfterPrev(t) => *t as u64 }).sum::<u64>() + c.xfr.iter().map(|x| x.0 as u64).sum::<u64>();
    let nominal = match c.tr {
        // requests queue on the semaphore: at most n budgets in a row
        Tr::Dgram => n * dg_per,
        // the connection timer restarts whenever a message arrives; every
        // request adds at most its issue delay, the peer's activity span and
        // one response timeout to the time line
        // (a peer that pauses reading delays everything behind the pause)
        Tr::Stream | Tr::Xfr => issue_sum + c.ups[0].st_read_stalls.iter().map(|s| s.1 as u64).sum::<u64>() + n * (span + st_t as u64),
        Tr::Multi => c.ms_rt as u64,
        Tr::DgStream => dg_per + c.ms_rt as u64,
        // every probe step ends at the latest when that upstream finishes
        Tr::Redundant | Tr::Lb => (c.ups.len() as u64 + 1) * dg_per,
    };
    2 * nominal + 5000
}

async fn drive(c: &Case, w: &Arc<World>, sr: Sr) -> Vec<Outcome> {
    let bound = Duration::from_millis(bound_ms(c));
    let mut done_tx = vec![];
    let mut done_rx = vec![];
    for _ in 0..c.n {
        let (tx, rx) = tokio::sync::watch::channel(false);
        done_tx.push(tx);
        done_rx.push(rx);
    }
    let mut handles = vec![];
    for (i, tx) in done_tx.into_iter().enumerate() {
        let sr = sr.clone();
        let w = w.clone();
        let issue = c.issue[i];
        let id = c.init_id;
        let prev = if i > 0 { Some(done_rx[i - 1].clone()) } else { None };
        handles.push(tokio::spawn(async move {
            match issue {
                Issue::At(ms) => sleep_until(w.at(ms as u64 * 1000)).await,
                Issue::AfterPrev(ms) => {
                    if let Some(mut p) = prev {
                        let _ = p.wait_for(|d| *d).await;
                    }
                    sleep(Duration::from_millis(ms as u64)).await;
                }
            }
            let req = build_request(&w.names[i], id);
            let t_issue = w.now();
            let mut gr = sr.send_request(req);
            let r = timeout(bound, gr.get_response()).await;
            let t_done = w.now();
            drop(gr);
            let _ = tx.send(true);
            let res = match r {
                Err(_) => None,
                Ok(Ok(m)) => Some(Ok(m.as_slice().to_vec())),
                Ok(Err(e)) => Some(Err(format!("{e:?}"))),
            };
            Outcome { res, t_issue, t_done, panicked: false }
        }));
    }
    drop(sr);
    let mut out = vec![];
    for h in handles {
        match h.await {
            Ok(o) => out.push(o),
            Err(_) => out.push(Outcome { res: None, t_issue: 0, t_done: 0, panicked: true }),
        }
    }
    out
}

#[derive(Debug, PartialEq)]
enum XfrEnd {
    /// The caller dropped the request handle before the end of the stream
    /// (`t_done` is the moment of the drop).
    Abandoned,
    Eof,
    Err(String),
    Hang,
    Panic,
}

struct XfrOutcome {
    msgs: Vec<Vec<u8>>,
    end: XfrEnd,
    /// u64::MAX: never issued.
    t_issue: u64,
    t_done: u64,
}

fn build_xfr_request(name: &Labels, k: usize, form: XfrForm) -> RequestMessageMulti<Vec<u8>> {
    if form == XfrForm::Axfr {
        return build_axfr_request(name);
    }
    let mut wirename = vec![];
    for l in name {
        wirename.push(l.len() as u8);
        wirename.extend_from_slice(l);
    }
    wirename.push(0);
    let name = Name::from_octets(wirename).expect("valid name");
    let mut qb = MessageBuilder::new_vec().question();
    qb.push((name.clone(), Rtype::IXFR)).expect("push question");
    // RFC 1995, section 3: the authority section holds the SOA of the
    // version the client has
    let root = Name::<Vec<u8>>::root_vec();
    let soa = Soa::new(root.clone(), root, Serial(xfr_serial_old(k)), Ttl::from_secs(3600), Ttl::from_secs(600), Ttl::from_secs(86400), Ttl::from_secs(60));
    let mut ab = qb.authority();
    ab.push((name, Class::IN, Ttl::from_secs(60), soa)).expect("push soa");
    RequestMessageMulti::new(ab.into_message()).expect("ixfr request message")
}

fn build_axfr_request(name: &Labels) -> RequestMessageMulti<Vec<u8>> {
    let mut wirename = vec![];
    for l in name {
        wirename.push(l.len() as u8);
        wirename.extend_from_slice(l);
    }
    wirename.push(0);
    let name = Name::from_octets(wirename).expect("valid name");
    let mut qb = MessageBuilder::new_vec().question();
    qb.push((name, Rtype::AXFR)).expect("push question");
    RequestMessageMulti::new(qb.into_message()).expect("axfr request message")
}

fn run_world(c: &Case) -> (Vec<Outcome>, Vec<XfrOutcome>, Arc<World>) {
    block_on_paused(async {
        let w = World::with_xfr(names(c.n), c.ups.clone(), xfr_names(c.xfr.len()), c.xfr.iter().map(|x| x.1.clone()).collect());
        let mut bg = vec![];
        let mut xfr_handles = vec![];
        let sr: Sr = match c.tr {
            Tr::Dgram => Arc::new(dgram::Connection::with_config(DgConnect { w: w.clone(), up: 0 }, dg_config(c))),
            Tr::Stream => {
                let client = open_stream(&w, 0, 0);
                let (conn, tr) = stream::Connection::<Req, RequestMessageMulti<Vec<u8>>>::with_config(client, st_config(c));
                bg.push(tokio::spawn(tr.run()));
                Arc::new(conn)
            }
            Tr::Xfr => {
                let client = open_stream(&w, 0, 0);
                let (conn, tr) = stream::Connection::<Req, RequestMessageMulti<Vec<u8>>>::with_config(client, st_config(c));
                bg.push(tokio::spawn(tr.run()));
                let bound = Duration::from_millis(bound_ms(c));
                let mut prev_done: Option<tokio::sync::watch::Receiver<bool>> = None;
                for (k, (at, x)) in c.xfr.iter().enumerate() {
                    let conn = conn.clone();
                    let w = w.clone();
                    let at = *at;
                    let form = x.form;
                    let abandon = c.xfr_abandon.get(k).copied().flatten();
                    let (done_tx, done_rx) = tokio::sync::watch::channel(false);
                    let prev = if c.xfr_after_prev.get(k).copied().unwrap_or(false) { prev_done.clone() } else { None };
                    prev_done = Some(done_rx);
                    xfr_handles.push(tokio::spawn(async move {
                        match prev {
                            Some(mut p) => {
                                let _ = p.wait_for(|d| *d).await;
                                sleep(Duration::from_millis(at as u64)).await;
                            }
                            None => sleep_until(w.at(at as u64 * 1000)).await,
                        }
                        let t_issue = w.now();
                        let mut gr = SendRequestMulti::send_request(&conn, build_xfr_request(&w.xfr_names[k], k, form));
                        drop(conn);
                        let mut msgs = vec![];
                        let end = loop {
                            if let Some(m) = abandon {
                                if m == 0 {
                                    // the request is on its way; the caller
                                    // loses interest while waiting
                                    if let Ok(Ok(Some(first))) = timeout(Duration::from_millis(1), gr.get_response()).await {
                                        msgs.push(first.as_slice().to_vec());
                                    }
                                    break XfrEnd::Abandoned;
                                }
                                if msgs.len() >= m as usize {
                                    break XfrEnd::Abandoned;
                                }
                            }
                            match timeout(bound, gr.get_response()).await {
                                Err(_) => break XfrEnd::Hang,
                                Ok(Ok(Some(m))) => msgs.push(m.as_slice().to_vec()),
                                Ok(Ok(None)) => break XfrEnd::Eof,
                                Ok(Err(e)) => break XfrEnd::Err(format!("{e:?}")),
                            }
                        };
                        drop(gr);
                        let t_done = w.now();
                        let _ = done_tx.send(true);
                        XfrOutcome { msgs, end, t_issue, t_done }
                    }));
                }
                Arc::new(conn)
            }
            Tr::Multi => {
                let (conn, tr) = multi_stream::Connection::<Req>::with_config(StConnect { w: w.clone(), up: 0 }, ms_config(c));
                bg.push(tokio::spawn(tr.run()));
                Arc::new(conn)
            }
            Tr::DgStream => {
                let cfg = dgram_stream::Config::from_parts(dg_config(c), ms_config(c));
                let (conn, tr) = dgram_stream::Connection::<_, Req>::with_config(DgConnect { w: w.clone(), up: 0 }, StConnect { w: w.clone(), up: 1 }, cfg);
                bg.push(tokio::spawn(tr.run()));
                Arc::new(conn)
            }
            Tr::Redundant => {
                let mut cfg = redundant::Config::default();
                cfg.set_defer_transport_error(c.defer_err);
                cfg.set_defer_refused(c.defer_refused);
                cfg.set_defer_servfail(c.defer_servfail);
                let (conn, tr) = redundant::Connection::<Req>::with_config(cfg);
                bg.push(tokio::spawn(tr.run()));
                for up in 0..c.ups.len() {
                    let d = dgram::Connection::with_config(DgConnect { w: w.clone(), up }, dg_config(c));
                    conn.add(Box::new(d)).await.expect("add upstream");
                }
                Arc::new(conn)
            }
            Tr::Lb => {
                let mut cfg = load_balancer::Config::default();
                cfg.set_defer_transport_error(c.defer_err);
                cfg.set_defer_refused(c.defer_refused);
                cfg.set_defer_servfail(c.defer_servfail);
                let (conn, tr) = load_balancer::Connection::<Req>::with_config(cfg);
                bg.push(tokio::spawn(tr.run()));
                for up in 0..c.ups.len() {
                    let d = dgram::Connection::with_config(DgConnect { w: w.clone(), up }, dg_config(c));
                    let mut cc = load_balancer::ConnConfig::new();
                    cc.set_max_burst(c.lb_burst);
                    conn.add(&format!("up{up}"), &cc, Box::new(d)).await.expect("add upstream");
                }
                Arc::new(conn)
            }
        };
        let out = drive(c, &w, sr).await;
        let mut xout = vec![];
        for h in xfr_handles {
            match h.await {
                Ok(o) => xout.push(o),
                Err(_) => xout.push(XfrOutcome { msgs: vec![], end: XfrEnd::Panic, t_issue: u64::MAX, t_done: 0 }),
            }
        }
        // all connection handles are gone now: give the transports a chance
        // to wind down (a panic there is caught by the engine's hook)
        for h in bg {
            let _ = timeout(Duration::from_secs(120), h).await;
        }
        (out, xout, w)
    })
}

//------------ Oracle helpers ------------------------------------------------------

/// The statement's notion of "answers this request", decided with the
/// independent walker. `strict` additionally demands what the library's
/// documented `is_answer` demands (used only for completeness claims).
fn acceptable(msg: &[u8], name: &Labels, id: u16, strict: bool) -> Result<(), &'static str> {
    let Some(h) = wire::header(msg) else { return Err("short") };
    if !h.qr() {
        return Err("qr-clear");
    }
    if h.id != id {
        return Err("wrong-id");
    }
    if h.counts[0] == 0 {
        if h.rcode() == 0 {
            return Err("noerror-without-question");
        }
        if strict && (h.counts[1] != 0 || h.counts[2] != 0 || h.counts[3] != 0) {
            return Err("error-without-question-but-records");
        }
        return Ok(());
    }
    let Some(wk) = wire::walk(msg) else { return Err("short") };
    if h.counts[0] != 1 || wk.questions.len() != 1 {
        return Err("wrong-question");
    }
    let q = &wk.questions[0];
    if q.name != *name || q.qtype != QTYPE_A || q.qclass != CLASS_IN {
        return Err("wrong-question");
    }
    if strict && wk.error.is_some() {
        return Err("malformed");
    }
    Ok(())
}

/// Is the message a peer read the request of caller `req` as composed
/// (ID and EDNS aside)? Decided with the independent walker.
fn request_intact(c: &Case, w: &World, req: Option<usize>, msg: &[u8]) -> Result<(), &'static str> {
    let Some(r) = req else { return Err("no caller's question in it") };
    let Some(wk) = wire::walk(msg) else { return Err("shorter than a header") };
    let h = &wk.header;
    if h.qr() || h.opcode() != 0 {
        return Err("not a query");
    }
    let (name, qtype, ns) = if r < c.n {
        (&w.names[r], QTYPE_A, 0)
    } else {
        let form = c.xfr[r - c.n].1.form;
        (&w.xfr_names[r - c.n], form.qtype(), if form == XfrForm::Axfr { 0 } else { 1 })
    };
    if h.counts[0] != 1 || wk.questions.len() != 1 || wk.questions[0].name != *name || wk.questions[0].qtype != qtype || wk.questions[0].qclass != CLASS_IN {
        return Err("question differs");
    }
    if h.counts[1] != 0 || h.counts[2] != ns || h.counts[3] > 1 {
        return Err("record counts differ");
    }
    if wk.error.is_some() || wk.records.len() != (h.counts[2] + h.counts[3]) as usize {
        return Err("records malformed");
    }
    if wk.end != msg.len() {
        return Err("trailing octets");
    }
    Ok(())
}

#[derive(Debug, Clone)]
enum Pred {
    /// The datagram transport must hand out a reply; the first acceptable
    /// one is emission `idx` of attempt `attempt`.
    MustOk { attempt: u32, idx: usize, tc: bool, only_tc: bool },
    NoClaim,
}

/// Static prediction for one request on a datagram upstream, from the
/// script alone (exact as long as connects do not fail: replies for other
/// requests never carry this request's question).
fn dgram_predict(s: &ReqScript, rt_ms: u32, retries: u8) -> Pred {
    const M: u64 = 3;
    let rt = rt_ms as u64;
    for a in 0..=retries as u32 {
        let em = s.attempt(a);
        let mut items: Vec<(u64, usize, usize)> = vec![];
        for (idx, e) in em.iter().enumerate() {
            items.push((e.delay as u64, items.len(), idx));
            if let Some(d) = e.dup {
                items.push((e.delay as u64 + d as u64, items.len(), idx));
            }
        }
        items.sort();
        let acc = |k: &Kind| matches!(k, Kind::Good | Kind::Tc | Kind::HdrErr(_));
        for (t, _, idx) in &items {
            let k = &em[*idx].kind;
            if *t > rt + M {
                break;
            }
            if *t + M >= rt {
                if acc(k) || *k == Kind::RecvErr {
                    return Pred::NoClaim;
                }
                continue;
            }
            if *k == Kind::RecvErr {
                return Pred::NoClaim;
            }
            if acc(k) {
                let tc = *k == Kind::Tc;
                // is every acceptable reply of this attempt truncated?
                let only_tc = em.iter().all(|e| !acc(&e.kind) || e.kind == Kind::Tc);
                return Pred::MustOk { attempt: a, idx: *idx, tc, only_tc };
            }
        }
    }
    Pred::NoClaim
}

/// Dynamic claim for request `i` on the stream leg of upstream `up`, from
/// the peers' log: returns the eid of the reply that must be delivered.
///
/// Soundness argument: a stream is FIFO and the transport looks replies up
/// by ID, so the first message carrying the ID the peer received for the
/// request, emitted after the request was received, is the one that
/// completes it — unless the connection died first. The connection's
/// response timer is restarted by every arriving message and is never older
/// than the last arrival (or the first request), so it cannot have fired
/// before `a + T`.
///
/// With a peer that pauses reading, the transport holds a request (and has
/// given it an ID) earlier than the peer's log shows its arrival, but not
/// before the caller issued it (`t_issue_us`); `timer_start_us` is a lower
/// bound for the start of the connection's response timer when nothing has
/// arrived yet (None: the moment the peer saw the first request of the
/// connection).
#[allow(clippy::too_many_arguments)]
fn stream_claim(ev: &[Ev], names: &[Labels], up: usize, i: usize, t_stream_ms: u64, deadline_us: Option<u64>, t_issue_us: u64, timer_start_us: Option<u64>) -> Option<u32> {
    const M: u64 = 3000;
    let conns: BTreeSet<usize> = ev.iter().filter(|e| e.up == up && e.leg == Leg::St).map(|e| e.conn).collect();
    for c in conns {
        let evs: Vec<&Ev> = ev.iter().filter(|e| e.up == up && e.leg == Leg::St && e.conn == c).collect();
        let Some(p) = evs.iter().position(|e| matches!(&e.what, What::Recv { req: Some(r), .. } if *r == i)) else { continue };
        let What::Recv { id: x, .. } = &evs[p].what else { unreachable!() };
        let first_recv_t = timer_start_us.unwrap_or_else(|| evs.iter().find(|e| matches!(e.what, What::Recv { .. })).map(|e| e.t).unwrap_or(0));
        let t_recv = evs[p].t.min(t_issue_us);
        let mut last_arr: Option<u64> = None;
        let mut dead = false;
        for e in &evs[..p] {
            match &e.what {
                What::Poison(_) => dead = true,
                What::Emit { bytes, done, .. } => {
                    if bytes.len() < 12 || done.is_none() {
                        dead = true;
                    } else {
                        // A reply the peer started to write before it saw
                        // this request but finished (frame split) at or
                        // after that moment reaches the transport when the
                        // request may already hold the (recycled) ID: the
                        // FIFO argument does not apply.
                        if wire::header(bytes).map(|h| h.id) == Some(*x) && done.unwrap() + 1000 >= t_recv {
                            return None;
                        }
                        last_arr = *done;
                    }
                }
                _ => {}
            }
        }
        if dead {
            continue;
        }
        for e in &evs[p + 1..] {
            match &e.what {
                What::Poison(_) => break,
                What::Emit { bytes, done, eid, .. } => {
                    if bytes.len() < 12 {
                        break;
                    }
                    let Some(d) = *done else { return None };
                    let hid = wire::header(bytes).map(|h| h.id).unwrap_or(0);
                    if hid == *x {
                        let a = last_arr.unwrap_or(first_recv_t);
                        let in_time = d + M < a + t_stream_ms * 1000 && deadline_us.map_or(true, |dl| d + M < dl);
                        if in_time && acceptable(bytes, &names[i], *x, true).is_ok() {
                            return Some(*eid);
                        }
                        return None;
                    }
                    last_arr = Some(d);
                }
                _ => {}
            }
        }
    }
    None
}

fn find_emit<'a>(ev: &'a [Ev], pred: impl Fn(&Ev) -> bool) -> Option<&'a Ev> {
    ev.iter().find(|e| matches!(e.what, What::Emit { .. }) && pred(e))
}

//------------ The check --------------------------------------------------------------

/// Tallies of labels that depend on what the library did with its own
/// random numbers (multi_stream retry back-off, redundant/load_balancer
/// probing): kept out of the class histogram, which is a pure function of
/// the seed, and reported under `randomness_dependent_tallies`.
static TALLY: std::sync::Mutex<BTreeMap<String, u64>> = std::sync::Mutex::new(BTreeMap::new());

/// Records a label derived from the observed run (not from the script).
fn dynclass(ctx: &mut Ctx, tr: Tr, label: String) {
    if matches!(tr, Tr::Dgram | Tr::Stream | Tr::Xfr) {
        ctx.class(label);
    } else {
        *TALLY.lock().unwrap().entry(label).or_default() += 1;
    }
}

fn extra(_opts: &RunOpts, agg: &mut Agg) -> Result<(), (Violation, Vec<u8>)> {
    let t = TALLY.lock().unwrap().clone();
    agg.extra_notes.insert("randomness_dependent_tallies".into(), serde_json::json!(t));
    Ok(())
}

fn classes(c: &Case, ctx: &mut Ctx) -> bool {
    let t = c.tr.name();
    let mut faulty = false;
    let mut kinds: BTreeSet<&'static str> = BTreeSet::new();
    for up in &c.ups {
        for r in &up.reqs {
            for a in &r.attempts {
                if a.is_empty() {
                    kinds.insert("never-reply");
                }
                for e in a {
                    kinds.insert(match e.kind {
                        Kind::Good => "good",
                        Kind::Tc => "tc",
                        Kind::HdrErr(_) => "header-only-error",
                        Kind::WrongId(3) => "wrong-id-of-other-request",
                        Kind::WrongId(_) => "wrong-id",
                        Kind::WrongQ => "wrong-question",
                        Kind::NotResp => "qr-clear",
                        Kind::Garbage(_) => "garbage-short",
                        Kind::Cross => "cross-delivery",
                        Kind::RecvErr => "recv-error",
                        Kind::Close(_) => "close",
                        Kind::BadLen => "bad-length-then-close",
                        Kind::Xfr(..) => "axfr",
                    });
                    if matches!(e.kind, Kind::WrongId(_) | Kind::WrongQ | Kind::Close(_) | Kind::Cross | Kind::BadLen) {
                        faulty = true;
                    }
                    if e.dup.is_some() {
                        kinds.insert(if e.dup == Some(0) { "duplicate-same-segment" } else { "duplicate" });
                        faulty = true;
                    }
                    if e.split > 0 {
                        kinds.insert("frame-split");
                    }
                }
            }
        }
        if !up.dg_fail_connect.is_empty() || !up.st_fail_connect.is_empty() {
            kinds.insert("connect-failure");
        }
    }
    // reorder: two requests issued at fixed times whose first replies come
    // back in the opposite order
    let first_delay = |i: usize| c.ups[0].reqs[i].attempts.first().and_then(|a| a.iter().map(|e| e.delay).min());
    'outer: for i in 0..c.n {
        for j in i + 1..c.n {
            if let (Issue::At(ti), Issue::At(tj), Some(di), Some(dj)) = (c.issue[i], c.issue[j], first_delay(i), first_delay(j)) {
                if ti <= tj && ti + di > tj + dj {
                    kinds.insert("reorder");
                    faulty = true;
                    break 'outer;
                }
            }
        }
    }
    if matches!(c.tr, Tr::Stream | Tr::Xfr) {
        if let Some(s) = c.st_srt {
            ctx.class(format!("{t}:separate-streaming-timeout-{}", if s > c.st_rt { "longer" } else { "shorter" }));
        }
        if !c.ups[0].st_read_stalls.is_empty() {
            ctx.class(format!("{t}:peer-read-stall"));
            if c.ups[0].st_buf < 31 && c.n + c.xfr.len() >= 2 {
                ctx.class(format!("{t}:peer-read-stall-pipe-smaller-than-request"));
            }
        }
    }
    for (k, (_, x)) in c.xfr.iter().enumerate() {
        ctx.class(format!(
            "{t}:{}",
            match x.form {
                XfrForm::Axfr => "axfr",
                XfrForm::IxfrFull => "ixfr-full-zone",
                XfrForm::IxfrUpToDate => "ixfr-up-to-date",
                XfrForm::IxfrDiff => "ixfr-diff",
            }
        ));
        if c.xfr_after_prev.get(k).copied().unwrap_or(false) {
            ctx.class(format!("{t}:transfer-issued-after-previous-transfer"));
        }
        if x.msgs.iter().any(|m| m.dup.is_some()) {
            ctx.class(format!("{t}:transfer-message-duplicated"));
        }
        ctx.class(format!("{t}:axfr-{}-messages", x.msgs.len().min(4)));
        if x.stall {
            ctx.class(format!("{t}:axfr-stalls"));
        }
        if x.msgs.iter().skip(1).any(|m| !m.with_q) {
            ctx.class(format!("{t}:axfr-later-message-without-question"));
        }
        if c.n > 0 {
            ctx.class(format!("{t}:axfr-with-ordinary-requests"));
        }
    }
    if c.issue.iter().any(|i| matches!(i, Issue::AfterPrev(_))) {
        kinds.insert("sequential-issue");
    }
    if c.n >= 2 {
        kinds.insert("concurrent");
    }
    if c.n >= 9 {
        kinds.insert("more-requests-than-channel-capacity");
    }
    for k in kinds {
        ctx.class(format!("{t}:{k}"));
    }
    (c.n + c.xfr.len()) >= 2 && (faulty || !c.xfr.is_empty())
}

fn check(c: &Case, ctx: &mut Ctx) -> CaseResult {
    let t = c.tr.name();
    let nontrivial = classes(c, ctx);
    if nontrivial {
        ctx.nontrivial(c);
    }
    ctx.sample(|| render(c));

    let (out, xout, w) = run_world(c);
    let inner = w.inner.lock().unwrap();
    let ev = &inner.events;
    let names = &w.names;

    // 0. no task may panic
    let ps = take_panics();
    if let Some(p) = ps.first() {
        return Err(Violation::new(panic_sig(p), format!("panic while running {}: {p}", render(c))));
    }
    vensure!(out.iter().all(|o| !o.panicked), format!("{t}:request-task-panicked"), "a request task panicked in {}", render(c));

    // 0b. what a peer reads is what the callers composed: every datagram /
    // every frame of the octet stream is one caller's request
    for e in ev.iter() {
        let What::Recv { req, bytes, .. } = &e.what else { continue };
        if let Err(why) = request_intact(c, &w, *req, bytes) {
            let n = bytes.len().min(80);
            vfail!(format!("{t}:request-garbled-on-wire"), "the peer (upstream {}, {:?} #{}) read a message that is not a request of any caller ({why}): {:02x?}{}; case: {}", e.up, e.leg, e.conn, &bytes[..n], if n < bytes.len() { ".." } else { "" }, render(c));
        }
    }

    // 1. every request completes within the bound
    // The stream connection has one response timeout for ordinary requests
    // and one for requests with a stream of responses; the one in effect is
    // that of the request the transport accepted last (documented: "response
    // timeout currently in effect"). Requests reach the transport in the
    // order they are issued, so an ordinary request issued after every
    // transfer request runs under the ordinary timeout from the moment it is
    // accepted; in every other situation either timeout can apply.
    let ordinary_timeout_governs = |o: &Outcome| xout.iter().all(|x| x.t_issue < o.t_issue);
    let streaming_timeout_governs = |x: &XfrOutcome| out.iter().all(|o| o.res.is_some() && !o.panicked && o.t_issue < x.t_issue);
    let st_lo = c.st_rt.min(srt_eff(c));
    for (i, o) in out.iter().enumerate() {
        let lim = if matches!(c.tr, Tr::Stream | Tr::Xfr) && ordinary_timeout_governs(o) { bound_with(c, c.st_rt) } else { bound_ms(c) };
        vensure!(
            o.res.is_some() && o.t_done.saturating_sub(o.t_issue) <= lim * 1000,
            format!("{t}:no-completion-within-budget"),
            "request {i} (issued at {} us) did not resolve within {} ms of virtual time (resolved: {:?} us); case: {}",
            o.t_issue,
            lim,
            o.res.as_ref().map(|_| o.t_done),
            render(c)
        );
    }

    // 2. what was handed out answers the caller's own request
    let mut ok_from: Vec<Option<&Ev>> = vec![None; c.n];
    for (i, o) in out.iter().enumerate() {
        let Some(Ok(msg)) = &o.res else { continue };
        let same: Vec<&Ev> = ev.iter().filter(|e| matches!(&e.what, What::Emit { bytes, delivered: true, .. } if bytes == msg)).collect();
        if same.is_empty() {
            // the load balancer documents nothing here, but it answers
            // SERVFAIL by itself when every upstream is over its burst limit
            if c.tr == Tr::Lb && c.lb_burst.is_some() {
                let h = wire::header(msg);
                let own_q = wire::walk(msg).map(|k| k.questions.len() == 1 && k.questions[0].name == names[i]).unwrap_or(false);
                if h.as_ref().map(|h| h.rcode() == 2 && h.id == c.init_id && h.counts[1] == 0).unwrap_or(false) && own_q {
                    dynclass(ctx, c.tr, format!("{t}:local-servfail-burst-limit"));
                    continue;
                }
            }
            vfail!(format!("{t}:invented-reply"), "request {i} got a message no peer emitted: {:02x?}; case: {}", msg, render(c));
        }
        // Whom a message answers is decided by its content (ID and question),
        // not by which request made the peer send it: a reply the peer sent
        // because of request A that carries B's ID and B's question is, by
        // the statement, an answer to B.
        let h = wire::header(msg).expect("emitted replies of 12+ octets");
        // IDs the peer received for this request on the connection (socket)
        // a candidate emission was sent on. Header-only errors with the same
        // ID are byte-identical, so several emissions can be candidates; the
        // delivery is fine if one of them explains it.
        let ids_on = |e: &Ev| -> BTreeSet<u16> {
            ev.iter()
                .filter(|x| x.up == e.up && x.leg == e.leg && x.conn == e.conn)
                .filter_map(|x| match &x.what {
                    What::Recv { req: Some(r), id, .. } if *r == i => Some(*id),
                    _ => None,
                })
                .collect()
        };
        // A stream peer that has closed (or was cut off) no longer reads:
        // the transport may have given the request an ID the peer never
        // saw, and a reply already in flight can legitimately carry it. The
        // ID is then not observable; the question is still checked.
        // The same holds for a peer that pauses reading: the transport has
        // numbered a request the peer has not read yet.
        let id_observable = |e: &Ev| e.leg == Leg::Dg || !(ev.iter().any(|x| x.up == e.up && x.leg == Leg::St && x.conn == e.conn && matches!(x.what, What::Poison(_))) || !c.ups[e.up].st_read_stalls.is_empty());
        let explaining: Vec<&Ev> = same.iter().copied().filter(|e| !id_observable(e) || ids_on(e).contains(&h.id)).collect();
        // (a stream reply can by chance be byte-identical to a datagram
        // reply: prefer the stream one, it is the one dgram_stream may return)
        let explained = explaining.iter().copied().find(|e| e.leg == Leg::St).or(explaining.first().copied());
        let e0: &Ev = explained.unwrap_or_else(|| same.iter().find(|e| matches!(&e.what, What::Emit { for_req, .. } if *for_req == i)).copied().unwrap_or(same[0]));
        ok_from[i] = Some(e0);
        let What::Emit { kind, .. } = &e0.what else { unreachable!() };
        let ids = ids_on(e0);
        vensure!(h.qr(), format!("{t}:non-response-delivered"), "request {i} got a message with QR clear ({kind:?}); case: {}", render(c));
        vensure!(explained.is_some(), format!("{t}:reply-with-foreign-id-delivered"), "request {i} got a reply with ID {} but the peer received IDs {:?} for it ({kind:?}); case: {}", h.id, ids, render(c));
        if let Err(why) = acceptable(msg, &names[i], h.id, false) {
            vfail!(format!("{t}:{why}-delivered"), "request {i} got a reply that does not answer it ({why}, {kind:?}); case: {}", render(c));
        }
        if c.tr == Tr::DgStream && e0.leg == Leg::Dg {
            vensure!(!h.tc(), "dgram_stream:truncated-datagram-reply-returned", "request {i} got the truncated datagram reply instead of a retry over the stream; case: {}", render(c));
        }
    }

    // 3. completeness
    let fail_not_delivered = |i: usize, why: &str, o: &Outcome| -> CaseResult {
        Err(Violation::new(
            format!("{t}:timely-reply-not-delivered"),
            format!("request {i}: {why}, but the caller got {:?} at {} us; case: {}", o.res.as_ref().map(|r| r.as_ref().map(|_| "Ok").map_err(|e| e.clone())), o.t_done, render(c)),
        ))
    };
    let dg_clean = |up: usize| c.ups[up].dg_fail_connect.is_empty();
    match c.tr {
        Tr::Dgram => {
            if dg_clean(0) {
                for (i, o) in out.iter().enumerate() {
                    if let Pred::MustOk { attempt, idx, .. } = dgram_predict(&c.ups[0].reqs[i], c.dg_rt, c.dg_retries) {
                        ctx.class("dgram:claim-must-ok");
                        if attempt > 0 {
                            ctx.class("dgram:claim-needs-retry");
                        }
                        if !matches!(o.res, Some(Ok(_))) {
                            return fail_not_delivered(i, &format!("attempt {attempt} gets acceptable reply #{idx} before the read timeout"), o);
                        }
                    }
                }
            }
        }
        Tr::Stream | Tr::Multi | Tr::Xfr => {
            for (i, o) in out.iter().enumerate() {
                let deadline = if c.tr == Tr::Multi { Some(o.t_issue + c.ms_rt as u64 * 1000) } else { None };
                // (only a peer that pauses reading separates the moment the
                // transport accepts a request from the moment the peer sees it)
                let slow_reader = !c.ups[0].st_read_stalls.is_empty();
                let (t_resp, t_issue, timer_start) = if c.tr == Tr::Multi {
                    (c.st_rt, u64::MAX, None)
                } else {
                    let first_issue = out.iter().map(|o| o.t_issue).chain(xout.iter().map(|x| x.t_issue)).min().unwrap_or(0);
                    let t_resp = if ordinary_timeout_governs(o) { c.st_rt } else { st_lo };
                    if slow_reader {
                        (t_resp, o.t_issue, Some(first_issue))
                    } else {
                        (t_resp, u64::MAX, None)
                    }
                };
                if let Some(eid) = stream_claim(ev, names, 0, i, t_resp as u64, deadline, t_issue, timer_start) {
                    dynclass(ctx, c.tr, format!("{t}:claim-must-ok"));
                    if !matches!(o.res, Some(Ok(_))) {
                        return fail_not_delivered(i, &format!("emission {eid} is the first reply with the request's ID on a live connection, acceptable and in time"), o);
                    }
                }
            }
        }
        Tr::DgStream => {
            if dg_clean(0) {
                for (i, o) in out.iter().enumerate() {
                    let Pred::MustOk { attempt, idx, tc, only_tc } = dgram_predict(&c.ups[0].reqs[i], c.dg_rt, c.dg_retries) else { continue };
                    if !tc {
                        ctx.class("dgram_stream:claim-must-ok-udp");
                        if !matches!(o.res, Some(Ok(_))) {
                            return fail_not_delivered(i, &format!("datagram attempt {attempt} gets acceptable reply #{idx} before the read timeout"), o);
                        }
                        continue;
                    }
                    if !only_tc {
                        continue;
                    }
                    // the truncated reply is the first acceptable one: the
                    // request must move to the stream
                    let Some(tc_ev) = find_emit(ev, |e| e.leg == Leg::Dg && matches!(&e.what, What::Emit { for_req, attempt: a, idx: k, delivered: true, .. } if *for_req == i && *a == attempt && *k == idx)) else { continue };
                    ctx.class("dgram_stream:tc-fallback-expected");
                    let stream_works = c.ups[1].st_fail_connect.is_empty() && (c.ups[1].st_connect_delay as u64 + 5) < c.ms_rt as u64;
                    let seen = ev.iter().any(|e| e.up == 1 && e.leg == Leg::St && matches!(&e.what, What::Recv { req: Some(r), .. } if *r == i));
                    if stream_works && c.ups[1].st_buf >= 512 {
                        vensure!(seen, "dgram_stream:truncated-reply-not-retried-over-stream", "request {i}: truncated datagram reply at {} us but the stream peer never saw the request; case: {}", tc_ev.t, render(c));
                    }
                    let deadline = tc_ev.t + c.ms_rt as u64 * 1000;
                    if let Some(eid) = stream_claim(ev, names, 1, i, c.st_rt as u64, Some(deadline), u64::MAX, None) {
                        dynclass(ctx, c.tr, "dgram_stream:claim-must-ok-tcp".into());
                        if !matches!(o.res, Some(Ok(_))) {
                            return fail_not_delivered(i, &format!("after the truncated datagram reply, stream emission {eid} is acceptable and in time"), o);
                        }
                        let from_stream = ok_from[i].map(|e| e.leg == Leg::St).unwrap_or(false);
                        vensure!(from_stream, "dgram_stream:stream-answer-not-returned", "request {i}: result does not come from the stream leg; case: {}", render(c));
                    }
                }
            }
        }
        Tr::Redundant | Tr::Lb => {
            if (0..c.ups.len()).all(dg_clean) {
                for (i, o) in out.iter().enumerate() {
                    let preds: Vec<bool> = (0..c.ups.len()).map(|u| matches!(dgram_predict(&c.ups[u].reqs[i], c.dg_rt, c.dg_retries), Pred::MustOk { .. })).collect();
                    let all = preds.iter().all(|p| *p);
                    let any = preds.iter().any(|p| *p);
                    // Without deferring, the first upstream to finish decides;
                    // with `defer_transport_error` an error is only reported
                    // when no upstream delivers a reply.
                    if all || (any && c.defer_err && c.lb_burst.is_none()) {
                        ctx.class(format!("{t}:claim-must-ok"));
                        if !all {
                            ctx.class(format!("{t}:claim-must-ok-despite-failing-upstream"));
                        }
                        if !matches!(o.res, Some(Ok(_))) {
                            return fail_not_delivered(i, &format!("upstreams predicted to answer: {preds:?}, defer_transport_error={}", c.defer_err), o);
                        }
                    }
                }
            }
        }
    }

    // 3b. A request is in flight until its response (stream) has ended on
    // the wire, whether or not the caller still listens: the ID of a transfer
    // the peer has not finished must not be given to another request on the
    // connection (RFC 7766, 6.2.1: "clients MUST NOT reuse the DNS Message ID
    // of an in-flight query on that connection"). Otherwise the rest of that
    // transfer - later messages may come without question (RFC 5936, 2.2.2) -
    // answers the new holder of the ID: "concurrent requests sharing one
    // connection never receive each other's answers". Observed at the peer
    // (bytes written to the stream). Claimed only while everything that
    // carried the ID since the transfer started is a proper in-order prefix
    // of the peer's response stream for it (no duplicate, no foreign message
    // with that ID, no close): nothing the transport has seen ends the
    // transfer then.
    if c.tr == Tr::Xfr {
        for (k, xo) in xout.iter().enumerate() {
            let r = c.n + k;
            let script = &c.xfr[k].1;
            let Some(pa) = ev.iter().position(|e| matches!(&e.what, What::Recv { req: Some(q), .. } if *q == r)) else { continue };
            let What::Recv { id: x, .. } = &ev[pa].what else { unreachable!() };
            let t_held = xo.t_issue.min(ev[pa].t);
            let abandoned = xo.end == XfrEnd::Abandoned;
            if abandoned {
                ctx.class("stream_xfr:transfer-abandoned-by-caller");
            }
            let mut next = 0usize;
            let mut after_drop = 0usize;
            let mut armed = false;
            for (pos, e) in ev.iter().enumerate() {
                match &e.what {
                    What::Poison(_) => break,
                    What::Emit { bytes, done, for_req, kind, .. } => {
                        if bytes.len() < 12 {
                            break;
                        }
                        if wire::header(bytes).map(|h| h.id) != Some(*x) {
                            continue;
                        }
                        if *for_req == r {
                            match kind {
                                Kind::Xfr(_, j) if pos > pa && *j as usize == next => {
                                    next += 1;
                                    if abandoned && done.map(|d| d > xo.t_done).unwrap_or(false) {
                                        after_drop += 1;
                                    }
                                }
                                // a duplicate (the copy of the first message
                                // looks like the closing SOA)
                                _ => break,
                            }
                            if next >= script.msgs.len() {
                                // the final message is on its way
                                break;
                            }
                        } else if pos > pa || done.map(|d| d + 1000 >= t_held).unwrap_or(true) {
                            // something else carries the transfer's ID: it can
                            // end the transfer (error, foreign closing SOA)
                            break;
                        }
                    }
                    What::Recv { req, id, .. } if pos > pa && *req != Some(r) => {
                        // (the transfer is unfinished: next < number of messages)
                        if abandoned && after_drop > 0 && !armed {
                            armed = true;
                            ctx.class("stream_xfr:request-arrives-while-abandoned-transfer-goes-on");
                        }
                        if !abandoned && !armed {
                            armed = true;
                            ctx.class("stream_xfr:request-arrives-while-transfer-goes-on");
                        }
                        vensure!(
                            id != x,
                            "stream_xfr:id-of-unfinished-transfer-given-to-another-request",
                            "transfer request {k} (ID {x}, received by the peer at {} us{}) has got {next} of {} messages of its response stream and nothing else under its ID, yet the peer receives request {:?} with the same ID at {} us; case: {}",
                            ev[pa].t,
                            if abandoned { format!(", handle dropped by the caller at {} us", xo.t_done) } else { String::new() },
                            script.msgs.len(),
                            req,
                            e.t,
                            render(c)
                        );
                    }
                    _ => {}
                }
            }
        }
    }

    // 4. response streams (AXFR): what the caller gets is exactly what the
    // peer sent for this transfer, in order
    for (k, xo) in xout.iter().enumerate() {
        let r = c.n + k;
        vensure!(xo.end != XfrEnd::Panic, "stream_xfr:request-task-panicked", "axfr task panicked; case: {}", render(c));
        vensure!(xo.end != XfrEnd::Hang, "stream_xfr:no-completion-within-budget", "axfr request {k}: get_response did not resolve within {} ms after {} messages; case: {}", bound_ms(c), xo.msgs.len(), render(c));
        let emitted: Vec<&Ev> = ev.iter().filter(|e| matches!(&e.what, What::Emit { for_req, kind: Kind::Xfr(..), .. } if *for_req == r)).collect();
        let xid = ev.iter().find_map(|e| match &e.what {
            What::Recv { req: Some(q), id, .. } if *q == r => Some(*id),
            _ => None,
        });
        let mut j = 0usize;
        let mut foreign_mid_transfer = false;
        for (m_idx, m) in xo.msgs.iter().enumerate() {
            if emitted.get(j).map(|e| matches!(&e.what, What::Emit { bytes, .. } if bytes == m)).unwrap_or(false) {
                j += 1;
                continue;
            }
            // "a header-only error reply needs only the ID": such a reply
            // (whatever made the peer send it) legitimately ends the transfer
            let emitted_at_all = ev.iter().any(|e| matches!(&e.what, What::Emit { bytes, .. } if bytes == m));
            // (a peer that pauses reading may never get to read the request:
            // the ID the transport gave it is then not observable)
            let id_unobservable = xid.is_none() && !c.ups[0].st_read_stalls.is_empty();
            if let Some(h) = wire::header(m) {
                if emitted_at_all && m.len() == 12 && h.qr() && h.rcode() != 0 && (xid == Some(h.id) || id_unobservable) && m_idx + 1 == xo.msgs.len() {
                    ctx.class("stream_xfr:ended-by-header-only-error-with-own-id");
                    continue;
                }
            }
            let whose = ev.iter().find_map(|e| match &e.what {
                What::Emit { bytes, for_req, kind, .. } if bytes == m => Some(format!("emitted for request {for_req} as {kind:?}")),
                _ => None,
            });
            if let (Some(x), Some(h)) = (xid, wire::header(m)) {
                // (only a message the peer sent for another request is
                // excused; an own message out of order is not)
                let foreign = ev.iter().any(|e| matches!(&e.what, What::Emit { bytes, for_req, .. } if bytes == m && *for_req != r));
                if emitted_at_all && foreign && h.qr() && h.id == x && h.counts[0] == 0 && h.rcode() == 0 {
                    if m_idx > 0 {
                        // A later message of a transfer may leave the question
                        // out (RFC 5936, 2.2.2); nothing but the ID ties it to
                        // the request, so a question-less message of another
                        // transfer that meets this ID cannot be told apart by
                        // any client. What follows it is no longer defined.
                        ctx.class("stream_xfr:ambiguous-question-less-foreign-message-mid-transfer");
                        foreign_mid_transfer = true;
                        break;
                    }
                    // The first response has to repeat the question (RFC
                    // 5936, 2.2.2; RFC 1995 has no exception): a message
                    // without one is not an answer to this request.
                    vfail!("stream_xfr:question-less-first-message-in-response-stream", "transfer request {k}: the first message handed to the caller has no question section and is not message #0 of the peer's response stream ({}); case: {}", whose.unwrap_or_else(|| "never emitted".into()), render(c));
                }
            }
            vfail!("stream_xfr:foreign-or-out-of-order-message-in-response-stream", "axfr request {k}: message #{m_idx} handed to the caller is not message #{j} of the peer's response stream ({}); case: {}", whose.unwrap_or_else(|| "never emitted".into()), render(c));
        }
        // completeness on a clean connection
        let script = &c.xfr[k].1;
        let Some(p) = ev.iter().position(|e| matches!(&e.what, What::Recv { req: Some(q), .. } if *q == r)) else { continue };
        let What::Recv { id: x, .. } = &ev[p].what else { unreachable!() };
        let mut clean = xo.end != XfrEnd::Abandoned && !script.stall && emitted.len() == script.msgs.len() && script.msgs.iter().all(|m| m.dup.is_none()) && !foreign_mid_transfer;
        let slow_reader = !c.ups[0].st_read_stalls.is_empty();
        let first_recv_t = if slow_reader {
            out.iter().map(|o| o.t_issue).chain(xout.iter().map(|x| x.t_issue)).min().unwrap_or(0)
        } else {
            ev.iter().find(|e| matches!(e.what, What::Recv { .. })).map(|e| e.t).unwrap_or(0)
        };
        // the transport holds the request from some moment between its issue
        // and its arrival at the peer
        let t_held = if slow_reader { xo.t_issue.min(ev[p].t) } else { ev[p].t };
        let t_resp = if streaming_timeout_governs(xo) { srt_eff(c) } else { st_lo };
        let mut last_arr: Option<u64> = None;
        let mut seen = 0usize;
        for (pos, e) in ev.iter().enumerate() {
            if seen == emitted.len() {
                break;
            }
            match &e.what {
                What::Poison(_) => clean = false,
                What::Emit { bytes, done, for_req, kind, .. } => {
                    let Some(d) = *done else {
                        clean = false;
                        continue;
                    };
                    let mine = *for_req == r && matches!(kind, Kind::Xfr(..));
                    if bytes.len() < 12 {
                        clean = false;
                    } else if !mine && wire::header(bytes).map(|h| h.id) == Some(*x) && (pos > p || d + 1000 >= t_held) {
                        // something else carries the transfer's ID
                        clean = false;
                    }
                    if mine {
                        let a = last_arr.unwrap_or(first_recv_t);
                        if d + 3000 >= a + t_resp as u64 * 1000 {
                            clean = false;
                        }
                        seen += 1;
                    }
                    last_arr = Some(d);
                }
                _ => {}
            }
        }
        if clean {
            ctx.class("stream_xfr:claim-complete-stream");
            if script.msgs.len() > 1 {
                ctx.class("stream_xfr:claim-complete-stream-multi-message");
            }
            if script.form != XfrForm::Axfr {
                ctx.class("stream_xfr:claim-complete-stream-ixfr");
            }
            vensure!(
                xo.end == XfrEnd::Eof && xo.msgs.len() == emitted.len(),
                "stream_xfr:response-stream-incomplete",
                "axfr request {k}: the peer sent {} messages in time on a live connection, the caller got {} and then {:?} at {} us; case: {}",
                emitted.len(),
                xo.msgs.len(),
                xo.end,
                xo.t_done,
                render(c)
            );
        }
        match &xo.end {
            XfrEnd::Eof => ctx.class("stream_xfr:outcome-eof"),
            XfrEnd::Abandoned => ctx.class("stream_xfr:outcome-abandoned"),
            _ => ctx.class("stream_xfr:outcome-err"),
        }
    }

    // outcome classes
    for o in &out {
        match &o.res {
            Some(Ok(_)) => dynclass(ctx, c.tr, format!("{t}:outcome-ok")),
            Some(Err(e)) => {
                dynclass(ctx, c.tr, format!("{t}:outcome-err"));
                if e.contains("WrongReplyForQuery") {
                    dynclass(ctx, c.tr, format!("{t}:outcome-wrong-reply-for-query"));
                }
            }
            None => {}
        }
    }
    if c.tr == Tr::Xfr && srt_eff(c) > c.st_rt {
        for o in &out {
            if ordinary_timeout_governs(o) && !xout.is_empty() && matches!(&o.res, Some(Err(e)) if e.contains("ReadTimeout")) {
                ctx.class("stream_xfr:ordinary-request-after-transfer-times-out-under-longer-streaming-timeout");
            }
        }
    }
    if matches!(c.tr, Tr::Stream | Tr::Xfr) && c.ups[0].st_buf < 31 {
        // a reply arrives while a request that was issued before is not yet
        // (completely) read by the peer: with a pipe smaller than a request
        // the transport is in the middle of writing
        let arrivals: Vec<u64> = ev.iter().filter_map(|e| match &e.what {
            What::Emit { bytes, done: Some(d), .. } if bytes.len() >= 12 => Some(*d),
            _ => None,
        }).collect();
        let issued = |r: usize| if r < c.n { out[r].t_issue } else { xout[r - c.n].t_issue };
        if ev.iter().any(|e| matches!(&e.what, What::Recv { req: Some(r), .. } if arrivals.iter().any(|d| issued(*r) < *d && *d < e.t))) {
            ctx.class(format!("{t}:reply-arrives-while-request-write-stalled"));
        }
    }
    if matches!(c.tr, Tr::Stream | Tr::Xfr) {
        // slot reuse: the same ID received twice for different requests, and
        // a reply for the first holder emitted after the second arrived
        let mut seen: BTreeMap<u16, (usize, usize)> = BTreeMap::new();
        let mut reused: BTreeMap<u16, (usize, usize)> = BTreeMap::new();
        for (k, e) in ev.iter().enumerate() {
            match &e.what {
                What::Recv { req: Some(r), id, .. } => {
                    if let Some((r0, _)) = seen.get(id) {
                        if r0 != r {
                            reused.insert(*id, (*r0, k));
                            ctx.class(format!("{t}:id-recycled"));
                            if *r0 >= c.n && *r >= c.n {
                                ctx.class("stream_xfr:transfer-id-recycled-by-transfer");
                            }
                        }
                    }
                    seen.insert(*id, (*r, k));
                }
                What::Emit { for_req, bytes, .. } if bytes.len() >= 12 => {
                    let hid = wire::header(bytes).unwrap().id;
                    if let Some((r0, _)) = reused.get(&hid) {
                        if r0 == for_req {
                            ctx.class(format!("{t}:late-reply-meets-recycled-id"));
                            let holder = seen.get(&hid).map(|s| s.0).unwrap_or(0);
                            if holder >= c.n && wire::header(bytes).map(|h| h.counts[0] == 0 && h.rcode() == 0).unwrap_or(false) {
                                ctx.class("stream_xfr:late-question-less-message-meets-transfer-with-recycled-id");
                            }
                        }
                    }
                }
                _ => {}
            }
        }
    }
    Ok(())
}

//------------ Hook detection -----------------------------------------------------------

/// The stream transport measures its timers with `std::time::Instant`
/// unless the hook `C15-hook-stream-virtual-clock.patch` is applied (then
/// `tokio::time::Instant` under `--cfg domain_verif`). Without the hook the
/// timers do not follow the paused clock and stream-based cases would
/// neither be deterministic nor terminate in bounded virtual time.
fn stream_clock_is_virtual() -> bool {
    static V: OnceLock<bool> = OnceLock::new();
    *V.get_or_init(|| {
        block_on_paused(async {
            let w = World::new(names(1), vec![UpScript { reqs: vec![ReqScript::default()], st_buf: 65536, ..Default::default() }]);
            let client = open_stream(&w, 0, 0);
            let (conn, tr) = stream::Connection::<Req, RequestMessageMulti<Vec<u8>>>::new(client);
            let run = tokio::spawn(tr.run());
            let mut gr = SendRequest::send_request(&conn, build_request(&w.names[0], 0));
            tokio::spawn(async move {
                let _ = gr.get_response().await;
            });
            // The default response timeout is 19 s. With the hook the
            // transport gives up after 19 s of virtual time and `run`
            // returns; without it `run` keeps sleeping (in virtual time)
            // until 19 s of real time have passed.
            timeout(Duration::from_secs(200), run).await.is_ok()
        })
    })
}

fn run_tr(data: &[u8], ctx: &mut Ctx, tr: Tr) -> CaseResult {
    if tr != Tr::Dgram && tr != Tr::Redundant && tr != Tr::Lb && !stream_clock_is_virtual() {
        ctx.class("hook-missing");
        return Ok(());
    }
    let c = decode(data, tr, ctx.thorough);
    check(&c, ctx)
}

fn run_dgram(d: &[u8], ctx: &mut Ctx) -> CaseResult {
    run_tr(d, ctx, Tr::Dgram)
}
fn run_stream(d: &[u8], ctx: &mut Ctx) -> CaseResult {
    run_tr(d, ctx, Tr::Stream)
}
fn run_multi(d: &[u8], ctx: &mut Ctx) -> CaseResult {
    run_tr(d, ctx, Tr::Multi)
}
fn run_dgstream(d: &[u8], ctx: &mut Ctx) -> CaseResult {
    run_tr(d, ctx, Tr::DgStream)
}
fn run_redundant(d: &[u8], ctx: &mut Ctx) -> CaseResult {
    run_tr(d, ctx, Tr::Redundant)
}
fn run_lb(d: &[u8], ctx: &mut Ctx) -> CaseResult {
    run_tr(d, ctx, Tr::Lb)
}
fn run_xfr(d: &[u8], ctx: &mut Ctx) -> CaseResult {
    run_tr(d, ctx, Tr::Xfr)
}

fn health(cl: &BTreeMap<String, u64>, _thorough: bool) -> Result<(), String> {
    if cl.get("hook-missing").copied().unwrap_or(0) > 0 {
        return Err("the stream transport's timers do not follow the paused clock: apply proposed_fixes/C15-hook-stream-virtual-clock.patch to the library (cfg domain_verif)".into());
    }
    let need: &[(&str, u64)] = &[
        ("dgram:wrong-id", 50),
        ("dgram:wrong-question", 50),
        ("dgram:duplicate", 50),
        ("dgram:cross-delivery", 30),
        ("dgram:garbage-short", 30),
        ("dgram:header-only-error", 50),
        ("dgram:claim-must-ok", 200),
        ("dgram:claim-needs-retry", 30),
        ("stream:wrong-id-of-other-request", 50),
        ("stream:wrong-question", 50),
        ("stream:duplicate", 50),
        ("stream:duplicate-same-segment", 20),
        ("stream:frame-split", 50),
        ("stream:close", 50),
        ("stream:bad-length-then-close", 30),
        ("stream:reorder", 50),
        ("stream:claim-must-ok", 200),
        ("stream:id-recycled", 30),
        ("stream:late-reply-meets-recycled-id", 10),
        ("multi_stream:close", 50),
        ("multi_stream:connect-failure", 50),
        ("dgram_stream:tc", 50),
        ("dgram_stream:tc-fallback-expected", 30),
        ("dgram_stream:claim-must-ok-udp", 100),
        ("stream_xfr:claim-complete-stream-multi-message", 100),
        ("stream_xfr:axfr-with-ordinary-requests", 100),
        // follow-up dimensions: slowly reading peer, separate streaming
        // timeout, IXFR, duplicated transfer messages, transfers in a row
        ("stream:peer-read-stall", 2000),
        ("stream:reply-arrives-while-request-write-stalled", 100),
        ("stream_xfr:reply-arrives-while-request-write-stalled", 50),
        ("stream:separate-streaming-timeout-longer", 1000),
        ("stream_xfr:separate-streaming-timeout-longer", 1000),
        ("stream_xfr:separate-streaming-timeout-shorter", 300),
        ("stream_xfr:ordinary-request-after-transfer-times-out-under-longer-streaming-timeout", 30),
        ("stream_xfr:ixfr-diff", 500),
        ("stream_xfr:ixfr-full-zone", 500),
        ("stream_xfr:ixfr-up-to-date", 300),
        ("stream_xfr:claim-complete-stream-ixfr", 300),
        ("stream_xfr:transfer-message-duplicated", 1000),
        ("stream_xfr:transfer-id-recycled-by-transfer", 200),
        ("stream_xfr:late-question-less-message-meets-transfer-with-recycled-id", 5),
        // round 6: cancellation of transfers
        ("stream_xfr:transfer-abandoned-by-caller", 1000),
        ("stream_xfr:request-arrives-while-abandoned-transfer-goes-on", 30),
        ("stream_xfr:request-arrives-while-transfer-goes-on", 3000),
        ("redundant:claim-must-ok", 50),
        ("load_balancer:claim-must-ok", 50),
    ];
    for (k, min) in need {
        let v = cl.get(*k).copied().unwrap_or(0);
        if v < *min {
            return Err(format!("class {k} starved ({v} < {min})"));
        }
    }
    Ok(())
}

pub fn prop() -> Option<Prop> {
    Some(Prop {
        id: "C15",
        rule: "a case = one client transport over scripted in-process peers, N requests with distinct question names, a fault script per request and upstream (reply kinds, delays, duplicates, frame splits, closes, connect failures) and a transport configuration, all decoded from the generated bytes; non-trivial = at least 2 requests on the transport and the script contains at least one of {replies in reverse order, duplicate, wrong ID, right ID with another request's question, cross-delivered datagram, close / bad length prefix}; distinct by the hash of the decoded case. stream and stream_xfr additionally draw a separate streaming response timeout (set_streaming_response_timeout shorter or longer than the response timeout) and a peer that pauses reading at generated offsets of the octet stream (back-pressure: partial writes); stream_xfr issues 1..3 AXFR or IXFR requests (answers: full zone, single SOA, difference sequence; messages optionally duplicated) at fixed times or one after the other, so that a finished transfer's ID goes to the next one; the caller of a transfer may drop its request handle after 0..2 messages while the peer goes on sending (cancellation), with later requests arriving while the abandoned transfer is unfinished",
        assumptions: &[
            "tokio current-thread runtime with a paused clock: schedules are those of the deterministic executor times the generated delays; real sockets, kernel behaviour and multi-threaded executors are not covered",
            "hook C15-hook-stream-virtual-clock (cfg domain_verif): stream.rs measures its timers with tokio::time::Instant so that they follow the paused clock",
            "completion bound per request = 2 x nominal budget + 5 s of virtual time; nominal budgets: dgram n*(retries+1)*read_timeout (semaphore queue), stream sum of issue delays + n*(peer activity span + response_timeout) (the documented timer is per connection and restarts on every arriving message), multi_stream response_timeout, dgram_stream datagram budget + stream response_timeout, redundant/load_balancer (upstreams+1)*datagram budget",
            "completeness is claimed only where the peers' log (streams) or the script (datagrams) shows an acceptable reply arriving more than 3 ms before the relevant timeout with no close, receive error or earlier reply carrying the same ID but failing is_answer (documented: WrongReplyForQuery) before it",
            "library-internal randomness (message IDs, multi_stream retry back-off, redundant/load_balancer probing) is not controlled; oracles do not depend on it",
            "the load balancer's locally generated SERVFAIL (all upstreams over their burst limit) is accepted as an answer when it carries the request's ID and question",
            "stream connection with two response timeouts (documented: the one in effect is that of the request accepted last): an ordinary request issued after every transfer request must finish within the budget computed from the ordinary response timeout, a transfer issued after every ordinary request gets completeness claims under the streaming timeout; in all other interleavings the budget uses the larger and the completeness claims the smaller of the two",
            "every datagram / stream frame a peer reads must be one caller's request as composed (question, section counts, no trailing octets; ID and EDNS aside)",
            "a question-less NOERROR message of another transfer that meets the ID of a running transfer after its first message cannot be told apart by any client (RFC 5936 2.2.2 allows later messages without question): not a violation, the transfer is not checked further; as first message it is a violation",
        ],
        subchecks: vec![
            SubCheck::new("dgram", run_dgram, 60_000, 600_000, 700),
            SubCheck::new("stream", run_stream, 60_000, 600_000, 700),
            SubCheck::new("multi_stream", run_multi, 40_000, 400_000, 700),
            SubCheck::new("dgram_stream", run_dgstream, 40_000, 400_000, 900),
            SubCheck::new("redundant", run_redundant, 30_000, 250_000, 900),
            SubCheck::new("load_balancer", run_lb, 30_000, 250_000, 900),
            SubCheck::new("stream_xfr", run_xfr, 30_000, 250_000, 600),
        ],
        health: Some(health),
        extra: Some(extra),
    })
}
