//! Independent reference code for C13, written from the RFCs without calling
//! into `domain`: canonical name order (RFC 4034 §6.1), type bitmap decoder
//! (RFC 4034 §4.1.2), NSEC3 hash (RFC 5155 §5, iterated SHA-1 via
//! `ring::digest`), base32hex (RFC 4648 §7, unpadded), NSEC / NSEC3 RDATA
//! walkers.
use std::cmp::Ordering;
use std::collections::BTreeSet;

pub type Labels = Vec<Vec<u8>>;

//------------ names -----------------------------------------------------------

pub fn lower_label(l: &[u8]) -> Vec<u8> {
    l.iter().map(|b| if b.is_ascii_uppercase() { b + 32 } else { *b }).collect()
}

pub fn lower(n: &Labels) -> Labels {
    n.iter().map(|l| lower_label(l)).collect()
}

/// RFC 4034 §6.1: sort names by their labels right to left; each label is
/// compared as a lowercased octet string, left-justified (a shorter string
/// that is a prefix sorts first); a missing label sorts before any label.
pub fn canon_cmp(a: &Labels, b: &Labels) -> Ordering {
    let mut ia = a.iter().rev();
    let mut ib = b.iter().rev();
    loop {
        match (ia.next(), ib.next()) {
            (None, None) => return Ordering::Equal,
            (None, Some(_)) => return Ordering::Less,
            (Some(_), None) => return Ordering::Greater,
            (Some(x), Some(y)) => {
                let (x, y) = (lower_label(x), lower_label(y));
                let n = x.len().min(y.len());
                for i in 0..n {
                    if x[i] != y[i] {
                        return x[i].cmp(&y[i]);
                    }
                }
                if x.len() != y.len() {
                    return x.len().cmp(&y.len());
                }
            }
        }
    }
}

pub fn name_eq(a: &Labels, b: &Labels) -> bool {
    a.len() == b.len() && a.iter().zip(b.iter()).all(|(x, y)| lower_label(x) == lower_label(y))
}

/// `n` is at or below `base` (label-wise suffix, case-insensitive).
pub fn ends_with(n: &Labels, base: &Labels) -> bool {
    if base.len() > n.len() {
        return false;
    }
    let off = n.len() - base.len();
    n[off..].iter().zip(base.iter()).all(|(x, y)| lower_label(x) == lower_label(y))
}

pub fn strictly_below(n: &Labels, base: &Labels) -> bool {
    n.len() > base.len() && ends_with(n, base)
}

/// A lowercased name ordered canonically (usable as a BTreeMap key).
#[derive(Clone, Debug, PartialEq, Eq, Hash)]
pub struct Canon(pub Labels);
impl Canon {
    pub fn of(n: &Labels) -> Self {
        Canon(lower(n))
    }
}
impl PartialOrd for Canon {
    fn partial_cmp(&self, o: &Self) -> Option<Ordering> {
        Some(self.cmp(o))
    }
}
impl Ord for Canon {
    fn cmp(&self, o: &Self) -> Ordering {
        canon_cmp(&self.0, &o.0)
    }
}

pub fn wire_len(l: &Labels) -> usize {
    l.iter().map(|x| x.len() + 1).sum::<usize>() + 1
}

pub fn to_wire(l: &Labels) -> Vec<u8> {
    let mut v = Vec::with_capacity(wire_len(l));
    for x in l {
        v.push(x.len() as u8);
        v.extend_from_slice(x);
    }
    v.push(0);
    v
}

/// Strict parse of one uncompressed name at the start of `w`; returns the
/// labels and the number of octets used.
pub fn read_name(w: &[u8]) -> Option<(Labels, usize)> {
    let mut out = vec![];
    let mut i = 0;
    loop {
        let n = *w.get(i)? as usize;
        i += 1;
        if n == 0 {
            return if i <= 255 { Some((out, i)) } else { None };
        }
        if n > 63 {
            return None;
        }
        out.push(w.get(i..i + n)?.to_vec());
        i += n;
    }
}

pub fn show(l: &Labels) -> String {
    if l.is_empty() {
        return ".".into();
    }
    let mut s = String::new();
    for x in l {
        for &b in x {
            if b == b'.' || b == b'\\' {
                s.push('\\');
                s.push(b as char);
            } else if (0x21..0x7f).contains(&b) {
                s.push(b as char);
            } else {
                s.push_str(&format!("\\{b:03}"));
            }
        }
        s.push('.');
    }
    s
}

//------------ type bitmap -----------------------------------------------------

/// Decodes an RFC 4034 §4.1.2 type bitmap and enforces its well-formedness
/// rules: window numbers strictly ascending, bitmap length 1..=32, no
/// trailing zero octet in a window (a window with no type present is not
/// allowed; "trailing zero octets MUST be omitted").
pub fn decode_bitmap(mut d: &[u8]) -> Result<BTreeSet<u16>, String> {
    let mut out = BTreeSet::new();
    let mut last: Option<u8> = None;
    while !d.is_empty() {
        if d.len() < 2 {
            return Err("truncated window header".into());
        }
        let (w, len) = (d[0], d[1] as usize);
        if let Some(l) = last {
            if w <= l {
                return Err(format!("window {w} after window {l} (not strictly ascending)"));
            }
        }
        last = Some(w);
        if len == 0 || len > 32 {
            return Err(format!("window {w} has bitmap length {len}"));
        }
        if d.len() < 2 + len {
            return Err(format!("window {w} truncated"));
        }
        let bits = &d[2..2 + len];
        if bits[len - 1] == 0 {
            return Err(format!("window {w} ends in a zero octet"));
        }
        for (i, b) in bits.iter().enumerate() {
            for k in 0..8 {
                if b & (0x80 >> k) != 0 {
                    out.insert(((w as u16) << 8) | ((i as u16) << 3) | k as u16);
                }
            }
        }
        d = &d[2 + len..];
    }
    Ok(out)
}

/// Reference encoder (used by the bitmap sub-check to compare octets).
pub fn encode_bitmap(types: &BTreeSet<u16>) -> Vec<u8> {
    let mut out = vec![];
    let v: Vec<u16> = types.iter().copied().collect();
    let mut i = 0;
    while i < v.len() {
        let w = (v[i] >> 8) as u8;
        let mut bits = [0u8; 32];
        let mut maxo = 0;
        while i < v.len() && (v[i] >> 8) as u8 == w {
            let lo = (v[i] & 0xff) as usize;
            bits[lo / 8] |= 0x80 >> (lo % 8);
            maxo = maxo.max(lo / 8);
            i += 1;
        }
        out.push(w);
        out.push((maxo + 1) as u8);
        out.extend_from_slice(&bits[..=maxo]);
    }
    out
}

//------------ NSEC3 hash ------------------------------------------------------

/// RFC 5155 §5: IH(salt, x, 0) = H(x || salt); IH(salt, x, k) =
/// H(IH(salt, x, k-1) || salt); x = owner name in canonical (lowercased,
/// uncompressed) wire form; H = SHA-1.
pub fn nsec3_hash(name: &Labels, salt: &[u8], iterations: u16) -> [u8; 20] {
    use ring::digest::{Context, SHA1_FOR_LEGACY_USE_ONLY};
    let mut buf = to_wire(&lower(name));
    buf.extend_from_slice(salt);
    let mut h = [0u8; 20];
    let mut c = Context::new(&SHA1_FOR_LEGACY_USE_ONLY);
    c.update(&buf);
    h.copy_from_slice(c.finish().as_ref());
    for _ in 0..iterations {
        let mut c = Context::new(&SHA1_FOR_LEGACY_USE_ONLY);
        c.update(&h);
        c.update(salt);
        h.copy_from_slice(c.finish().as_ref());
    }
    h
}

const B32HEX: &[u8; 32] = b"0123456789abcdefghijklmnopqrstuv";

/// RFC 4648 §7 "base32hex", no padding, lowercase.
pub fn b32hex(d: &[u8]) -> Vec<u8> {
    let mut out = vec![];
    let mut acc: u32 = 0;
    let mut bits = 0;
    for &b in d {
        acc = (acc << 8) | b as u32;
        bits += 8;
        while bits >= 5 {
            out.push(B32HEX[((acc >> (bits - 5)) & 31) as usize]);
            bits -= 5;
        }
    }
    if bits > 0 {
        out.push(B32HEX[((acc << (5 - bits)) & 31) as usize]);
    }
    out
}

/// Strict decoder (case-insensitive alphabet, unpadded, trailing bits zero).
pub fn b32hex_decode(s: &[u8]) -> Option<Vec<u8>> {
    let mut out = vec![];
    let mut acc: u32 = 0;
    let mut bits = 0;
    for &c in s {
        let c = c.to_ascii_lowercase();
        let v = B32HEX.iter().position(|&x| x == c)? as u32;
        acc = (acc << 5) | v;
        bits += 5;
        if bits >= 8 {
            out.push(((acc >> (bits - 8)) & 0xff) as u8);
            bits -= 8;
        }
        acc &= 0xffff;
    }
    if bits > 0 && (acc & ((1 << bits) - 1)) != 0 {
        return None;
    }
    Some(out)
}

//------------ RDATA walkers ---------------------------------------------------

/// NSEC RDATA (RFC 4034 §4.1): next domain name (uncompressed) + bitmap.
pub fn parse_nsec_rdata(rd: &[u8]) -> Result<(Labels, BTreeSet<u16>), String> {
    let (next, used) = read_name(rd).ok_or("bad next domain name")?;
    let types = decode_bitmap(&rd[used..])?;
    Ok((next, types))
}

#[derive(Clone, Debug)]
pub struct Nsec3Rd {
    pub alg: u8,
    pub flags: u8,
    pub iterations: u16,
    pub salt: Vec<u8>,
    pub next: Vec<u8>,
    pub types: BTreeSet<u16>,
}

/// NSEC3 RDATA (RFC 5155 §3.2).
pub fn parse_nsec3_rdata(rd: &[u8]) -> Result<Nsec3Rd, String> {
    if rd.len() < 5 {
        return Err("short".into());
    }
    let (alg, flags) = (rd[0], rd[1]);
    let iterations = u16::from_be_bytes([rd[2], rd[3]]);
    let sl = rd[4] as usize;
    let salt = rd.get(5..5 + sl).ok_or("salt truncated")?.to_vec();
    let p = 5 + sl;
    let hl = *rd.get(p).ok_or("no hash length")? as usize;
    let next = rd.get(p + 1..p + 1 + hl).ok_or("hash truncated")?.to_vec();
    let types = decode_bitmap(&rd[p + 1 + hl..])?;
    Ok(Nsec3Rd { alg, flags, iterations, salt, next, types })
}

#[cfg(test)]
mod tests {
    use super::*;
    fn n(s: &str) -> Labels {
        if s == "." {
            return vec![];
        }
        s.trim_end_matches('.').split('.').map(|l| l.as_bytes().to_vec()).collect()
    }
    #[test]
    fn rfc5155_appendix_a_hashes() {
        // RFC 5155 Appendix A: salt aabbccdd, 12 iterations
        let salt = [0xaa, 0xbb, 0xcc, 0xdd];
        for (name, want) in [
            ("example", "0p9mhaveqvm6t7vbl5lop2u3t2rp3tom"),
            ("a.example", "35mthgpgcu1qg68fab165klnsnk3dpvl"),
            ("ai.example", "gjeqe526plbf1g8mklp59enfd789njgi"),
            ("ns1.example", "2t7b4g4vsa5smi47k61mv5bv1a22bojr"),
            ("*.w.example", "r53bq7cc2uvmubfu5ocmm6pers9tk9en"),
            ("x.y.w.example", "2vptu5timamqttgl4luu9kg21e0aor3s"),
        ] {
            assert_eq!(String::from_utf8(b32hex(&nsec3_hash(&n(name), &salt, 12))).unwrap(), want);
            assert_eq!(b32hex_decode(want.as_bytes()).unwrap(), nsec3_hash(&n(name), &salt, 12).to_vec());
        }
    }
    #[test]
    fn rfc4034_order() {
        // RFC 4034 §6.1 example
        let v: Vec<Labels> = vec![
            n("example"),
            n("a.example"),
            n("yljkjljk.a.example"),
            n("Z.a.example"),
            n("zABC.a.EXAMPLE"),
            n("z.example"),
            vec![vec![1u8], b"z".to_vec(), b"example".to_vec()],
            n("*.z.example"),
            vec![vec![200u8], b"z".to_vec(), b"example".to_vec()],
        ];
        for w in v.windows(2) {
            assert_eq!(canon_cmp(&w[0], &w[1]), Ordering::Less, "{} < {}", show(&w[0]), show(&w[1]));
        }
    }
    #[test]
    fn rfc4034_bitmap_example() {
        // RFC 4034 §4.3: A MX RRSIG NSEC TYPE1234
        let mut rd = vec![0x00, 0x06, 0x40, 0x01, 0x00, 0x00, 0x00, 0x03, 0x04, 0x1b];
        rd.extend_from_slice(&[0u8; 26]);
        rd.push(0x20);
        let want: BTreeSet<u16> = [1u16, 15, 46, 47, 1234].into_iter().collect();
        assert_eq!(decode_bitmap(&rd).unwrap(), want);
        assert_eq!(encode_bitmap(&want), rd);
        assert!(decode_bitmap(&[0, 1, 0]).is_err());
        assert!(decode_bitmap(&[0, 0]).is_err());
        assert!(decode_bitmap(&[1, 1, 1, 0, 1, 1]).is_err());
    }
}
