//! C13 — generated NSEC/NSEC3 chains are complete, ordered, closed and
//! exactly typed (feature `unstable-sign`).
//!
//! Sub-checks
//! * `nsec`   — generated zone -> `SortedRecords` -> `generate_nsecs`; the
//!   returned records are decoded with independent walkers and compared with
//!   the chain computed from the zone *model*; absent (name, type) probes must
//!   be deniable from the returned records.
//! * `nsec3`  — the same for `generate_nsec3s` (hash order, ring closure, ENTs,
//!   opt-out, parameters, NSEC3PARAM).
//! * `bitmap` — `RtypeBitmapBuilder` against an independent RFC 4034 §4.1.2
//!   encoder/decoder.
//! * `hash`   — `nsec3_hash` / `mk_hashed_nsec3_owner_name` against iterated
//!   SHA-1 (`ring::digest`) + base32hex.
pub mod denial;
pub mod model;
pub mod refs;

use crate::engine::*;
use crate::gen::{byte, pick, range, u16_, u32_};
use crate::{vensure, vfail};
use arbitrary::Unstructured;
use bytes::Bytes;
use denial::*;
use domain::base::iana::{Class, DigestAlgorithm, Nsec3HashAlgorithm, Rtype, SecurityAlgorithm};
use domain::base::name::{Name, ToName};
use domain::base::rdata::{ComposeRecordData, UnknownRecordData};
use domain::base::{Record, Serial, Ttl};
use domain::dnssec::common::nsec3_hash as lib_nsec3_hash;
use domain::dnssec::sign::denial::nsec::{generate_nsecs, GenerateNsecConfig};
use domain::dnssec::sign::denial::nsec3::{generate_nsec3s, mk_hashed_nsec3_owner_name, GenerateNsec3Config, Nsec3ParamTtlMode};
use domain::dnssec::sign::records::{DefaultSorter, RecordsIter, SortedRecords};
use domain::rdata::dnssec::{RtypeBitmap, RtypeBitmapBuilder};
use domain::rdata::nsec3::{Nsec3Salt, OwnerHash};
use domain::rdata::{Aaaa, Cname, Dname, Dnskey, Ds, Mx, Ns, Nsec3param, Ptr, Soa, Txt, ZoneRecordData, A};
use model::*;
use refs::*;
use std::collections::{BTreeMap, BTreeSet};

type N = Name<Bytes>;
type D = ZoneRecordData<Bytes, N>;
type R = Record<N, D>;

fn to_name(l: &Labels) -> N {
    Name::from_octets(Bytes::from(to_wire(l))).expect("generated name must be valid")
}

fn from_name<T: ToName>(n: &T) -> Labels {
    n.iter_labels().filter(|l| !l.is_root()).map(|l| l.as_slice().to_vec()).collect()
}

fn to_record(z: &Zone, r: &ZRec) -> R {
    let data: D = match &r.rd {
        Rd::Soa { serial, minimum } => {
            let mut m = z.apex.clone();
            if wire_len(&m) + 3 <= 255 {
                m.insert(0, b"ns".to_vec());
            }
            ZoneRecordData::Soa(Soa::new(
                to_name(&m),
                to_name(&z.apex),
                Serial(*serial),
                Ttl::from_secs(7200),
                Ttl::from_secs(900),
                Ttl::from_secs(1209600),
                Ttl::from_secs(*minimum),
            ))
        }
        Rd::Name(n) if r.rtype == NS => ZoneRecordData::Ns(Ns::new(to_name(n))),
        Rd::Name(n) if r.rtype == DNAME => ZoneRecordData::Dname(Dname::new(to_name(n))),
        Rd::Name(n) if r.rtype == PTR => ZoneRecordData::Ptr(Ptr::new(to_name(n))),
        Rd::Name(n) => ZoneRecordData::Cname(Cname::new(to_name(n))),
        Rd::Mx(p, n) => ZoneRecordData::Mx(Mx::new(*p, to_name(n))),
        Rd::A(a) => ZoneRecordData::A(A::from_octets(a[0], a[1], a[2], a[3])),
        Rd::Aaaa(a) => ZoneRecordData::Aaaa(Aaaa::new((*a).into())),
        Rd::Txt(t) => ZoneRecordData::Txt(Txt::build_from_slice(t).expect("txt")),
        Rd::Ds(k, alg, dt, d) => ZoneRecordData::Ds(
            Ds::new(*k, SecurityAlgorithm::from_int(*alg), DigestAlgorithm::from_int(*dt), Bytes::from(d.clone())).expect("ds"),
        ),
        Rd::Dnskey(f, alg, k) => ZoneRecordData::Dnskey(Dnskey::new(*f, 3, SecurityAlgorithm::from_int(*alg), Bytes::from(k.clone())).expect("dnskey")),
        Rd::Nsec3param(it, salt) => ZoneRecordData::Nsec3param(Nsec3param::new(
            Nsec3HashAlgorithm::SHA1,
            0,
            *it,
            Nsec3Salt::from_octets(Bytes::from(salt.clone())).expect("salt"),
        )),
        Rd::Unknown(d) => ZoneRecordData::Unknown(UnknownRecordData::from_octets(Rtype::from_int(r.rtype), Bytes::from(d.clone())).expect("unknown")),
    };
    Record::new(to_name(&r.owner), Class::from_int(z.class), Ttl::from_secs(r.ttl), data)
}

/// How the zone gets into the `SortedRecords` collection (a generated
/// dimension of both chain sub-checks). Decoded from the one "how" byte the
/// sub-checks always read (0 = `From<Vec>`, as before) plus, for the
/// split points, batch order and interleaving of the multi-batch mode, a
/// xorshift generator seeded with a hash of the whole input (so it is still a
/// pure function of `data` and reads nothing more from it: older replay
/// files decode to the same zone, configuration and probes).
#[derive(Clone, Debug, Hash)]
enum Load {
    FromVec,
    FromIter,
    Inserts,
    /// record indices per step; step 0 fills the empty collection (by
    /// `first`), every later step is one `extend()` call or, for a
    /// single-record step marked so, one `insert()` call.
    Batches { first: u8, steps: Vec<(Vec<usize>, bool)> },
}

struct XorShift(u64);
impl XorShift {
    fn next(&mut self) -> u64 {
        let mut x = self.0;
        x ^= x << 13;
        x ^= x >> 7;
        x ^= x << 17;
        self.0 = x;
        x.wrapping_mul(0x2545F4914F6CDD1D)
    }
    fn below(&mut self, n: usize) -> usize {
        if n <= 1 { 0 } else { ((self.next() >> 33) as usize) % n }
    }
}

/// Reference sort key of a record: canonical owner, then type.
fn rec_key(r: &ZRec) -> (Canon, u16) {
    (Canon::of(&r.owner), r.rtype)
}

fn plan_load(z: &Zone, how_b: u8, data: &[u8]) -> Load {
    match how_b {
        0..=29 => return Load::FromVec,
        30..=59 => return Load::FromIter,
        60..=84 => return Load::Inserts,
        _ => {}
    }
    let n = z.recs.len();
    let mut rng = XorShift(fnv(&data) | 1);
    // order in which a loader delivers the records: generation order (which
    // is unsorted already), or a shuffle of it
    let mut order: Vec<usize> = (0..n).collect();
    if how_b % 2 == 1 {
        for i in (1..n).rev() {
            order.swap(i, rng.below(i + 1));
        }
    }
    // 2..=4 batches with generated split points (empty batches are allowed:
    // extend() with nothing is a legal call)
    let nb = 2 + rng.below(3);
    let mut cuts: Vec<usize> = (0..nb - 1).map(|_| rng.below(n + 1)).collect();
    cuts.sort();
    let mut steps: Vec<(Vec<usize>, bool)> = vec![];
    let mut lo = 0;
    for c in cuts.iter().copied().chain(std::iter::once(n)) {
        steps.push((order[lo..c].to_vec(), false));
        lo = c;
    }
    // Two thirds of the multi-batch plans are steered towards the shape
    // "a later batch straddles the stored tail and its first record sorts
    // after the tail": make sure the earlier batches hold a record that
    // sorts in the middle of the later batch, then bring a record that sorts
    // after everything stored so far to the front of that batch.
    if how_b % 3 != 0 {
        for b in 1..steps.len() {
            let stored_max = steps[..b].iter().flat_map(|s| s.0.iter()).map(|i| rec_key(&z.recs[*i])).max();
            let Some(tail) = stored_max else { continue };
            let batch = &mut steps[b].0;
            if let Some(pos) = batch.iter().position(|i| rec_key(&z.recs[*i]) > tail) {
                batch.swap(0, pos);
            }
        }
    }
    // now and then a single-record step goes through insert()
    for s in steps.iter_mut().skip(1) {
        if s.0.len() == 1 && rng.below(2) == 0 {
            s.1 = true;
        }
    }
    Load::Batches { first: (rng.below(3)) as u8, steps }
}

/// Classes of a load plan (computed with the reference order only).
fn load_classes(z: &Zone, l: &Load, ctx: &mut Ctx) {
    match l {
        Load::FromVec => ctx.class("load:from-vec"),
        Load::FromIter => ctx.class("load:from-iter"),
        Load::Inserts => ctx.class("load:insert-sequence"),
        Load::Batches { steps, .. } => {
            ctx.class("load:multi-batch");
            let mut stored: Option<(Canon, u16)> = None;
            for (b, (idx, single)) in steps.iter().enumerate() {
                let keys: Vec<(Canon, u16)> = idx.iter().map(|i| rec_key(&z.recs[*i])).collect();
                if b > 0 && !*single {
                    if let (Some(tail), Some(first)) = (&stored, keys.first()) {
                        let before = keys.iter().any(|k| k < tail);
                        let after = keys.iter().any(|k| k > tail);
                        if before && after {
                            ctx.class("load:later-batch-straddles-stored-tail");
                            if first > tail {
                                ctx.class("load:straddling-batch-starts-after-stored-tail");
                            }
                        }
                        if !before && after {
                            ctx.class("load:later-batch-entirely-after-stored-tail");
                        }
                        if keys.windows(2).any(|w| w[0] > w[1]) {
                            ctx.class("load:later-batch-unsorted-inside");
                        }
                    }
                }
                if b > 0 && *single {
                    ctx.class("load:insert-between-batches");
                }
                for k in keys {
                    if stored.as_ref().map(|s| k > *s).unwrap_or(true) {
                        stored = Some(k);
                    }
                }
            }
        }
    }
}

/// Builds the sorted collection the way the plan says.
fn build_sorted(z: &Zone, l: &Load) -> SortedRecords<N, D> {
    let recs: Vec<R> = z.recs.iter().map(|r| to_record(z, r)).collect();
    match l {
        Load::FromVec => SortedRecords::<N, D, DefaultSorter>::from(recs),
        Load::FromIter => recs.into_iter().collect(),
        Load::Inserts => {
            let mut s = SortedRecords::<N, D, DefaultSorter>::new();
            for r in recs {
                let _ = s.insert(r); // Err = exact duplicate
            }
            s
        }
        Load::Batches { first, steps } => {
            let take = |idx: &Vec<usize>| -> Vec<R> { idx.iter().map(|i| recs[*i].clone()).collect() };
            let b0 = take(&steps[0].0);
            let mut s: SortedRecords<N, D> = match first {
                0 => {
                    let mut s = SortedRecords::<N, D, DefaultSorter>::new();
                    s.extend(b0);
                    s
                }
                1 => b0.into_iter().collect(),
                _ => SortedRecords::<N, D, DefaultSorter>::from(b0),
            };
            for (idx, single) in &steps[1..] {
                let b = take(idx);
                if *single {
                    for r in b {
                        let _ = s.insert(r);
                    }
                } else {
                    s.extend(b);
                }
            }
            s
        }
    }
}

/// Self-test switch (sensitivity runs only): skip the direct checks on the
/// collection so that a breakage of `SortedRecords` has to be caught by the
/// chain oracle.
fn skip_prestage() -> bool {
    std::env::var_os("VERIF_C13_SKIP_PRESTAGE").is_some()
}

/// `SortedRecords` must hold the generated records in canonical owner order,
/// types ascending within an owner; `RecordsIter`/`OwnerRrs` must group them by
/// owner and classify cuts / in-zone the way the model does.
fn check_sorted(z: &Zone, a: &Analysis, sr: &SortedRecords<N, D>) -> CaseResult {
    use std::cmp::Ordering::*;
    let mut want: BTreeSet<(Canon, u16)> = BTreeSet::new();
    for r in &z.recs {
        want.insert((Canon::of(&r.owner), r.rtype));
    }
    let mut got: BTreeSet<(Canon, u16)> = BTreeSet::new();
    let mut prev: Option<(Labels, u16)> = None;
    for r in sr.iter() {
        let o = from_name(r.owner());
        let t = r.rtype().to_int();
        if let Some((po, pt)) = &prev {
            match canon_cmp(po, &o) {
                Less => {}
                Equal => vensure!(*pt <= t, "sorted:types-not-ascending-within-owner", "{} type {pt} before {t}", show(&o)),
                Greater => vfail!("sorted:owners-not-in-canonical-order", "{} sorted before {}", show(po), show(&o)),
            }
        }
        got.insert((Canon::of(&o), t));
        prev = Some((o, t));
    }
    vensure!(got == want, "sorted:records-lost-or-invented", "want {} (owner,type) pairs, got {}", want.len(), got.len());
    vensure!(sr.len() <= z.recs.len(), "sorted:records-lost-or-invented", "more records than inserted");
    // grouping
    let apex = to_name(&z.apex);
    let mut prev: Option<Labels> = None;
    let mut groups = 0;
    for g in sr.owner_rrs() {
        groups += 1;
        let o = from_name(g.owner());
        if let Some(p) = &prev {
            vensure!(canon_cmp(p, &o) == Less, "records-iter:owner-group-split-or-unordered", "{} then {}", show(p), show(&o));
        }
        let mut pt: Option<u16> = None;
        let mut types = BTreeSet::new();
        for rs in g.rrsets() {
            let t = rs.rtype().to_int();
            if let Some(p) = pt {
                vensure!(p < t, "records-iter:rrset-split", "type {p} then {t} at {}", show(&o));
            }
            pt = Some(t);
            types.insert(t);
            for r in rs.iter() {
                vensure!(r.rtype().to_int() == t && name_eq(&from_name(r.owner()), &o), "records-iter:foreign-record-in-rrset", "{}", show(&o));
            }
        }
        let inz = ends_with(&o, &z.apex);
        vensure!(g.is_in_zone(&apex) == inz, "owner-rrs:is_in_zone", "{} apex {}", show(&o), show(&z.apex));
        if inz {
            let m = &a.owners[&Canon::of(&o)];
            vensure!(types == m.types, "records-iter:types-of-owner", "{}: {:?} vs {:?}", show(&o), types, m.types);
            let cut = !name_eq(&o, &z.apex) && types.contains(&NS);
            vensure!(g.is_zone_cut(&apex) == cut, "owner-rrs:is_zone_cut", "{} -> {}", show(&o), !cut);
        }
        prev = Some(o);
    }
    let distinct: BTreeSet<Canon> = z.recs.iter().map(|r| Canon::of(&r.owner)).collect();
    vensure!(groups == distinct.len(), "records-iter:owner-group-split-or-unordered", "{groups} groups for {} owners", distinct.len());
    Ok(())
}

fn zone_classes(z: &Zone, a: &Analysis, ctx: &mut Ctx) -> bool {
    let n_auth = a.owners.values().filter(|o| o.authoritative).count();
    if n_auth == 1 {
        ctx.class("zone:apex-only");
    }
    let cuts: Vec<_> = a.owners.iter().filter(|(_, o)| o.is_cut).collect();
    if !cuts.is_empty() {
        ctx.class("zone:delegation");
    }
    if cuts.iter().any(|(_, o)| o.has_ds()) {
        ctx.class("zone:signed-delegation");
    }
    if cuts.iter().any(|(_, o)| !o.has_ds()) {
        ctx.class("zone:unsigned-delegation");
    }
    if cuts.iter().any(|(_, o)| o.types.iter().any(|t| *t != NS && *t != DS)) {
        ctx.class("zone:child-data-at-cut");
    }
    if a.n_nonauth > 0 {
        ctx.class("zone:glue-or-occluded");
    }
    if a.owners.iter().any(|(_, o)| !o.authoritative && o.types.contains(&NS)) {
        ctx.class("zone:occluded-ns-below-cut");
    }
    if a.last_is_nonauth {
        ctx.class("zone:glue-sorts-last");
    }
    if !a.ents_all.is_empty() {
        ctx.class("zone:ent");
    }
    if a.shared_ent {
        ctx.class("zone:ent-shared");
    }
    if a.nested_ent {
        ctx.class("zone:ent-nested");
    }
    if a.owners.iter().any(|(n, o)| o.authoritative && n.0.first().map(|l| l == b"*").unwrap_or(false)) {
        ctx.class("zone:wildcard");
    }
    if a.case_variants {
        ctx.class("zone:case-variant-owners");
    }
    if a.n_out_before > 0 {
        ctx.class("zone:out-of-zone-before");
    }
    if a.n_out_after > 0 {
        ctx.class("zone:out-of-zone-after");
    }
    if z.apex.is_empty() {
        ctx.class("zone:root-apex");
    }
    if a.soa_at_cut {
        ctx.class("zone:soa-at-delegation-point");
    }
    if a.soa_at_plain {
        ctx.class("zone:soa-at-ordinary-non-apex-name");
    }
    if a.soa_below_cut {
        ctx.class("zone:soa-below-cut");
    }
    if a.soa_out_of_zone {
        ctx.class("zone:soa-out-of-zone");
    }
    if a.apex_only_type_at_plain {
        ctx.class("zone:dnskey-or-nsec3param-at-ordinary-non-apex-name");
    }
    if a.owners.values().any(|o| o.is_cut && (o.types.contains(&DNSKEY) || o.types.contains(&NSEC3PARAM))) {
        ctx.class("zone:dnskey-or-nsec3param-at-delegation-point");
    }
    // DNAME owners: ordinary authoritative data (RFC 6672), never a cut
    for o in a.owners.values().filter(|o| o.types.contains(&DNAME)) {
        if o.is_apex {
            ctx.class("zone:dname-at-apex");
        } else if !o.authoritative {
            ctx.class("zone:dname-below-cut");
        } else if o.is_cut {
            ctx.class("zone:dname-at-delegation-point");
        } else {
            ctx.class("zone:dname-at-ordinary-non-apex-name");
            if o.types.len() > 1 {
                ctx.class("zone:dname-owner-with-other-types");
            }
        }
    }
    if a.owners.values().any(|o| o.authoritative && !o.is_cut && o.types.contains(&PTR)) {
        ctx.class("zone:ptr-at-authoritative-name");
    }
    if !a.ttl_judged() {
        ctx.class("zone:ttl-not-judged(non-apex-soa-in-authoritative-data)");
    }
    if a.unaligned_before > 0 {
        ctx.class("zone:out-of-zone-before-with-unaligned-apex-suffix");
    }
    if a.unaligned_after > 0 {
        ctx.class("zone:out-of-zone-after-with-unaligned-apex-suffix");
    }
    if a.first_trailing_is_unaligned {
        ctx.class("zone:first-trailing-owner-has-unaligned-apex-suffix");
    }
    if z.apex.first().map(|l| matches!(l.len(), 45 | 48..=57)).unwrap_or(false) {
        ctx.class("zone:apex-label-length-octet-is-hostname-char");
        if a.first_trailing_is_unaligned {
            ctx.class("zone:hostname-like-trailing-look-alike");
        }
    }
    if a.lookalike_of_cut {
        ctx.class("zone:authoritative-name-with-unaligned-cut-suffix");
    }
    if a.lookalike_follows_cut {
        ctx.class("zone:unaligned-cut-suffix-name-follows-the-cut");
    }
    if a.lookalike_of_owner {
        ctx.class("zone:authoritative-name-with-unaligned-owner-suffix");
    }
    if a.lookalike_ent {
        ctx.class("zone:ent-with-unaligned-owner-suffix");
    }
    let mut windows = BTreeSet::new();
    for o in a.owners.values().filter(|o| o.authoritative) {
        let w: BTreeSet<u8> = o.visible_types().iter().map(|t| (t >> 8) as u8).collect();
        if w.len() >= 3 {
            ctx.class("zone:three-or-more-windows-at-one-name");
        }
        windows.extend(w);
    }
    if windows.contains(&255) {
        ctx.class("zone:type-in-window-255");
    }
    if windows.contains(&4) {
        ctx.class("zone:type-1234");
    }
    if a.owners.values().any(|o| o.authoritative && o.visible_types().contains(&255)) {
        ctx.class("zone:type-255");
    }
    if a.owners.values().any(|o| o.authoritative && o.visible_types().contains(&256)) {
        ctx.class("zone:type-256");
    }
    if z.class != 1 {
        ctx.class("zone:class-not-in");
    }
    if n_auth >= 20 {
        ctx.class("zone:20+names");
    }
    a.n_nonauth > 0 || !a.ents_all.is_empty() || a.case_variants
}

/// Probe names derived from the zone: existing names, children, siblings,
/// ancestors, wildcards, case flips, names below cuts, random names.
fn gen_probe(u: &mut Unstructured, z: &Zone, a: &Analysis) -> (Labels, u16) {
    let names: Vec<&Canon> = a.owners.keys().collect();
    let base: Labels = if names.is_empty() { z.apex.clone() } else { names[pick(u, names.len())].0.clone() };
    let lbls: &[&[u8]] = &[b"a", b"b", b"*", b"zz", b"\x00", b"www", b"0", b"ns", b"\xff", b"A", b"sub", b"c", b"x", b"_"];
    let mut q: Labels = match pick(u, 12) {
        0 | 1 => base.clone(),
        2 | 3 => {
            let mut n = base.clone();
            n.insert(0, lbls[pick(u, lbls.len())].to_vec());
            n
        }
        4 => {
            // neighbour in canonical order: tweak the first label
            let mut n = base.clone();
            if n.len() > z.apex.len() {
                let l = &mut n[0];
                match pick(u, 4) {
                    0 => l.push(0),
                    1 => {
                        let k = l.len() - 1;
                        if l[k] > 0 {
                            l[k] -= 1;
                        } else {
                            l.pop();
                        }
                    }
                    2 => {
                        let k = l.len() - 1;
                        l[k] = l[k].wrapping_add(1);
                    }
                    _ => l.insert(0, b'a'),
                }
                if l.is_empty() || l.len() > 63 {
                    *l = b"q".to_vec();
                }
            }
            n
        }
        5 => {
            // an ancestor (ENT or existing)
            let anc = ancestors_within(&base, &z.apex);
            if anc.is_empty() { z.apex.clone() } else { anc[pick(u, anc.len())].clone() }
        }
        6 => {
            let mut n = base.clone();
            n.insert(0, b"*".to_vec());
            n
        }
        7 => {
            let mut n = base.clone();
            for _ in 0..2 + pick(u, 2) {
                n.insert(0, lbls[pick(u, lbls.len())].to_vec());
            }
            n
        }
        8 => base.iter().map(|l| l.iter().map(|c| if c.is_ascii_alphabetic() && byte(u) & 1 == 1 { c ^ 0x20 } else { *c }).collect()).collect(),
        9 => {
            // child of an ENT / ancestor
            let anc = ancestors_within(&base, &z.apex);
            let mut n = if anc.is_empty() { z.apex.clone() } else { anc[pick(u, anc.len())].clone() };
            n.insert(0, lbls[pick(u, lbls.len())].to_vec());
            n
        }
        10 => {
            let mut n = z.apex.clone();
            let k = 1 + pick(u, 3);
            for _ in 0..k {
                let len = 1 + pick(u, 3);
                n.insert(0, (0..len).map(|_| byte(u)).collect());
            }
            n
        }
        _ => {
            let mut n = z.apex.clone();
            n.insert(0, lbls[pick(u, lbls.len())].to_vec());
            n
        }
    };
    if wire_len(&q) > 255 || !ends_with(&q, &z.apex) {
        q = z.apex.clone();
    }
    let present: Vec<u16> = a.owners.get(&Canon::of(&q)).map(|o| o.types.iter().copied().collect()).unwrap_or_default();
    let t = match pick(u, 8) {
        0 | 1 => [A, AAAA, NS, DS, TXT, MX, CNAME, SOA, DNSKEY, NSEC3PARAM][pick(u, 10)],
        2 => UNKNOWN_POOL[pick(u, UNKNOWN_POOL.len())],
        3 if !present.is_empty() => present[pick(u, present.len())],
        4 => [NSEC, RRSIG, 50, 0, 255][pick(u, 5)],
        5 => u16_(u),
        _ => [A, AAAA, 1234, 65280][pick(u, 4)],
    };
    (q, t)
}

fn kind_of(a: &Analysis, z: &Zone, n: &Labels) -> &'static str {
    if !ends_with(n, &z.apex) {
        return "out-of-zone-name";
    }
    match a.owners.get(&Canon::of(n)) {
        Some(o) if !o.authoritative => "name-below-cut",
        Some(o) if o.is_apex => "apex",
        Some(o) if o.is_cut && o.has_ds() => "signed-delegation",
        Some(o) if o.is_cut => "unsigned-delegation",
        Some(o) if o.types.contains(&DNAME) => "dname-owner",
        Some(_) if n.first().map(|l| l == b"*").unwrap_or(false) => "wildcard",
        Some(_) => "plain-name",
        None if a.ents_all.contains(&Canon::of(n)) => "ent",
        None if a.covering_cut(n).is_some() => "name-below-cut",
        None => "name-not-in-zone-data",
    }
}

/// Self-test switch (sensitivity runs only): with VERIF_C13_DENIAL_ONLY set
/// the exact chain comparison is skipped so that a mutant has to be caught
/// by the denial probes alone.
fn denial_only() -> bool {
    std::env::var_os("VERIF_C13_DENIAL_ONLY").is_some()
}

fn expected_ttl(z: &Zone) -> u32 {
    z.soa_ttl.min(z.soa_min)
}

//------------ nsec ------------------------------------------------------------

fn run_nsec(data: &[u8], ctx: &mut Ctx) -> CaseResult {
    let mut u = Unstructured::new(data);
    // configuration first, so that it does not starve when the zone uses up
    // the input; all-zero input = default configuration
    let dnskey = byte(&mut u) % 3 != 1;
    let how_b = byte(&mut u);
    let via_refs = byte(&mut u) % 3 == 1;
    let apex_case = byte(&mut u) % 4 == 1;
    let nprobes = range(&mut u, 5, 24);
    let z = gen_zone(&mut u, true);
    let a = analyse(&z);
    let how = plan_load(&z, how_b, data);
    load_classes(&z, &how, ctx);
    let interesting = zone_classes(&z, &a, ctx);
    ctx.class(if dnskey { "cfg:assume-dnskey" } else { "cfg:no-dnskey" });
    ctx.sample(|| format!("dnskey={dnskey} {}", show_zone(&z)));

    let sr = build_sorted(&z, &how);
    if !skip_prestage() {
        check_sorted(&z, &a, &sr)?;
    }
    let apex_l: Labels = if apex_case { z.apex.iter().map(|l| l.iter().map(|c| if c.is_ascii_alphabetic() { c ^ 0x20 } else { *c }).collect()).collect() } else { z.apex.clone() };
    let apex = to_name(&apex_l);
    let cfg = if dnskey { GenerateNsecConfig::new() } else { GenerateNsecConfig::new().without_assuming_dnskeys_will_be_added() };
    let refs: Vec<&R> = sr.iter().collect();
    let res = if via_refs { generate_nsecs(&apex, RecordsIter::new_from_refs(&refs), &cfg) } else { generate_nsecs(&apex, sr.owner_rrs(), &cfg) };
    let nsecs = match res {
        Ok(v) => v,
        Err(e) => vfail!("nsec:error-on-valid-zone", "generate_nsecs returned {e:?} for {}", show_zone(&z)),
    };

    // decode what was returned
    let mut chain: Vec<NsecRec> = vec![];
    for r in &nsecs {
        let owner = from_name(r.owner());
        let mut rd = vec![];
        r.data().compose_rdata(&mut rd).expect("compose");
        let (next, types) = match parse_nsec_rdata(&rd) {
            Ok(x) => x,
            Err(e) => vfail!("nsec:bitmap-malformed", "NSEC at {}: {e}; rdata {:02x?}", show(&owner), rd),
        };
        // accessors agree with the wire form
        let acc: BTreeSet<u16> = r.data().types().iter().map(|t| t.to_int()).collect();
        vensure!(acc == types, "nsec:bitmap-iter-differs-from-wire", "{:?} vs {:?}", acc, types);
        vensure!(name_eq(&from_name(r.data().next_name()), &next), "nsec:next-accessor-differs-from-wire", "{}", show(&owner));
        vensure!(r.class().to_int() == z.class, "nsec:class", "NSEC at {} has class {} zone {}", show(&owner), r.class(), z.class);
        vensure!(!a.ttl_judged() || r.ttl().as_secs() == expected_ttl(&z), "nsec:ttl", "NSEC at {} has TTL {} want min({}, {})", show(&owner), r.ttl().as_secs(), z.soa_ttl, z.soa_min);
        chain.push(NsecRec { owner, next, types });
    }
    let exp = a.expected_nsec(dnskey);
    let denial_only = denial_only();
    if !denial_only {
    // every owner is an authoritative name, once
    let mut seen = BTreeSet::new();
    for r in &chain {
        let k = kind_of(&a, &z, &r.owner);
        vensure!(
            a.auth_owner(&r.owner).is_some(),
            format!("nsec:chain-has-{k}"),
            "NSEC at {} which is {k}; zone {}",
            show(&r.owner),
            show_zone(&z)
        );
        vensure!(seen.insert(Canon::of(&r.owner)), "nsec:duplicate-owner", "{}", show(&r.owner));
    }
    for (n, _) in &exp {
        if !seen.contains(n) {
            vfail!(format!("nsec:chain-misses-{}", kind_of(&a, &z, &n.0)), "no NSEC at {}; zone {}", show(&n.0), show_zone(&z));
        }
    }
    vensure!(chain.len() == exp.len(), "nsec:chain-length", "{} vs {}", chain.len(), exp.len());
    for (i, r) in chain.iter().enumerate() {
        vensure!(name_eq(&r.owner, &exp[i].0 .0), "nsec:chain-not-in-canonical-order", "position {i}: {} want {}", show(&r.owner), show(&exp[i].0 .0));
    }
    for (i, r) in chain.iter().enumerate() {
        let want_next = &exp[(i + 1) % exp.len()].0 .0;
        if !name_eq(&r.next, want_next) {
            if i + 1 == chain.len() {
                vfail!("nsec:last-does-not-point-to-apex", "last NSEC {} -> {}", show(&r.owner), show(&r.next));
            }
            vfail!(
                format!("nsec:next-is-not-successor:got-{}", kind_of(&a, &z, &r.next)),
                "{} -> {} want {}",
                show(&r.owner),
                show(&r.next),
                show(want_next)
            );
        }
        let k = kind_of(&a, &z, &r.owner);
        let want = &exp[i].1;
        if let Some(t) = r.types.difference(want).next() {
            vfail!(format!("nsec:bitmap-extra-type-at-{k}"), "NSEC at {} lists type {t}; want {:?} got {:?}", show(&r.owner), want, r.types);
        }
        if let Some(t) = want.difference(&r.types).next() {
            vfail!(format!("nsec:bitmap-missing-type-at-{k}"), "NSEC at {} lacks type {t}; want {:?} got {:?}", show(&r.owner), want, r.types);
        }
    }
    }
    // denial probes
    let mut pcl = vec![];
    for _ in 0..nprobes {
        let (q, t) = gen_probe(&mut u, &z, &a);
        if let Err((sig, d)) = nsec_denial(&chain, &a, dnskey, &q, t, &mut pcl) {
            vfail!(sig, "probe ({}, {t}): {d}; zone {}", show(&q), show_zone(&z));
        }
    }
    for c in pcl {
        ctx.class(format!("nsec-{c}"));
    }
    if interesting {
        ctx.nontrivial(&(&z, dnskey, &how, via_refs));
    }
    Ok(())
}

//------------ nsec3 -----------------------------------------------------------

struct N3Cfg {
    salt: Vec<u8>,
    iterations: u16,
    opt_out: bool,
    exclude: bool,
    dnskey: bool,
    ttl_mode: u8,
    fixed_ttl: u32,
}

fn gen_n3cfg(u: &mut Unstructured) -> N3Cfg {
    let thorough = byte(u) >= 240;
    let sl = match pick(u, 8) {
        0 | 1 => 0,
        2 => 1,
        3 => 8,
        4 => 255,
        5 => 254,
        _ => pick(u, 256),
    };
    let salt: Vec<u8> = (0..sl).map(|_| byte(u)).collect();
    let maxit = if thorough { 500 } else { 50 };
    let iterations = match pick(u, 8) {
        0 | 1 => 0,
        2 => 1,
        3 => 2,
        4 => maxit,
        _ => pick(u, maxit as usize + 1) as u16,
    };
    let opt_out = byte(u) % 2 == 1;
    let exclude = byte(u) % 3 != 1;
    let dnskey = byte(u) % 3 != 1;
    let ttl_mode = pick(u, 3) as u8;
    let fixed_ttl = [0u32, 3600, 1, 0xffff_ffff][pick(u, 4)];
    N3Cfg { salt, iterations, opt_out, exclude, dnskey, ttl_mode, fixed_ttl }
}

fn run_nsec3(data: &[u8], ctx: &mut Ctx) -> CaseResult {
    let mut u = Unstructured::new(data);
    let c = gen_n3cfg(&mut u);
    let how_b = byte(&mut u);
    let via_refs = byte(&mut u) % 3 == 1;
    let apex_case = byte(&mut u) % 4 == 1;
    let nprobes = range(&mut u, 5, 24);
    let z = gen_zone(&mut u, false);
    let a = analyse(&z);
    let how = plan_load(&z, how_b, data);
    load_classes(&z, &how, ctx);
    let interesting = zone_classes(&z, &a, ctx);
    ctx.class(if c.opt_out { if c.exclude { "cfg:opt-out-excluding" } else { "cfg:opt-out-including" } } else { "cfg:no-opt-out" });
    ctx.class(if c.dnskey { "cfg:assume-dnskey" } else { "cfg:no-dnskey" });
    ctx.class(match c.ttl_mode {
        0 => "cfg:nsec3param-ttl-soa",
        1 => "cfg:nsec3param-ttl-soa-minimum",
        _ => "cfg:nsec3param-ttl-fixed",
    });
    ctx.class(match c.salt.len() {
        0 => "cfg:salt-0",
        255 => "cfg:salt-255",
        _ => "cfg:salt-other",
    });
    ctx.class(match c.iterations {
        0 => "cfg:iterations-0",
        1..=9 => "cfg:iterations-1..9",
        _ => "cfg:iterations-10+",
    });
    ctx.sample(|| format!("salt_len={} it={} optout={} exclude={} dnskey={} {}", c.salt.len(), c.iterations, c.opt_out, c.exclude, c.dnskey, show_zone(&z)));

    let sr = build_sorted(&z, &how);
    if !skip_prestage() {
        check_sorted(&z, &a, &sr)?;
    }
    let apex_l: Labels = if apex_case { z.apex.iter().map(|l| l.iter().map(|c| if c.is_ascii_alphabetic() { c ^ 0x20 } else { *c }).collect()).collect() } else { z.apex.clone() };
    let apex = to_name(&apex_l);
    let params = Nsec3param::new(Nsec3HashAlgorithm::SHA1, 0, c.iterations, Nsec3Salt::from_octets(Bytes::from(c.salt.clone())).expect("salt <= 255"));
    let mut cfg = GenerateNsec3Config::<Bytes, DefaultSorter>::new(params);
    if c.opt_out {
        cfg = cfg.with_opt_out();
    }
    if !c.exclude {
        cfg = cfg.without_opt_out_excluding_owner_names_of_unsigned_delegations();
    }
    if !c.dnskey {
        cfg = cfg.without_assuming_dnskeys_will_be_added();
    }
    cfg = cfg.with_ttl_mode(match c.ttl_mode {
        0 => Nsec3ParamTtlMode::Soa,
        1 => Nsec3ParamTtlMode::SoaMinimum,
        _ => Nsec3ParamTtlMode::Fixed(Ttl::from_secs(c.fixed_ttl)),
    });
    let refs: Vec<&R> = sr.iter().collect();
    let res = if via_refs { generate_nsec3s(&apex, RecordsIter::new_from_refs(&refs), &cfg) } else { generate_nsec3s(&apex, sr.owner_rrs(), &cfg) };
    let out = match res {
        Ok(v) => v,
        Err(e) => vfail!("nsec3:error-on-valid-zone", "generate_nsec3s returned {e:?} for {}", show_zone(&z)),
    };

    let excluding = c.opt_out && c.exclude;
    let exp = a.expected_nsec3(excluding, c.dnskey);
    // reverse map hash -> name over everything that could plausibly be hashed
    let mut rev: BTreeMap<Vec<u8>, Labels> = BTreeMap::new();
    {
        let mut add = |n: &Labels| {
            rev.insert(nsec3_hash(n, &c.salt, c.iterations).to_vec(), n.clone());
        };
        for r in &z.recs {
            add(&lower(&r.owner));
            if ends_with(&r.owner, &z.apex) {
                for an in ancestors_within(&lower(&r.owner), &lower(&z.apex)) {
                    add(&an);
                }
            }
        }
    }
    let want_flags = if c.opt_out { 1u8 } else { 0 };
    let mut chain: Vec<Nsec3Rec> = vec![];
    for r in &out.nsec3s {
        let owner = from_name(r.owner());
        vensure!(
            owner.len() == z.apex.len() + 1 && ends_with(&owner, &z.apex),
            "nsec3:owner-is-not-one-label-plus-apex",
            "{}",
            show(&owner)
        );
        let Some(hash) = b32hex_decode(&owner[0]).filter(|h| h.len() == 20 && owner[0].len() == 32) else {
            vfail!("nsec3:owner-label-is-not-base32hex-sha1", "{}", show(&owner));
        };
        let mut rd = vec![];
        r.data().compose_rdata(&mut rd).expect("compose");
        let p = match parse_nsec3_rdata(&rd) {
            Ok(p) => p,
            Err(e) => vfail!("nsec3:bitmap-malformed", "NSEC3 {}: {e}; rdata {:02x?}", show(&owner), rd),
        };
        let acc: BTreeSet<u16> = r.data().types().iter().map(|t| t.to_int()).collect();
        vensure!(acc == p.types, "nsec3:bitmap-iter-differs-from-wire", "{:?} vs {:?}", acc, p.types);
        vensure!(
            p.alg == 1 && p.flags == want_flags && p.iterations == c.iterations && p.salt == c.salt,
            "nsec3:parameters-not-copied",
            "alg {} flags {} it {} salt {:02x?}; want 1 {want_flags} {} {:02x?}",
            p.alg,
            p.flags,
            p.iterations,
            p.salt,
            c.iterations,
            c.salt
        );
        vensure!(p.next.len() == 20, "nsec3:next-hash-length", "{}", p.next.len());
        vensure!(r.class().to_int() == 1, "nsec3:class", "class {}", r.class());
        vensure!(!a.ttl_judged() || r.ttl().as_secs() == expected_ttl(&z), "nsec3:ttl", "NSEC3 TTL {} want min({}, {})", r.ttl().as_secs(), z.soa_ttl, z.soa_min);
        chain.push(Nsec3Rec { hash, next: p.next, flags: p.flags, types: p.types });
    }
    // expected chain in hash order
    let mut expv: Vec<(Vec<u8>, &Canon, &BTreeSet<u16>, bool)> = exp.iter().map(|(n, (t, e))| (nsec3_hash(&n.0, &c.salt, c.iterations).to_vec(), n, t, *e)).collect();
    expv.sort_by(|x, y| x.0.cmp(&y.0));
    let exp_hashes: BTreeMap<&Vec<u8>, usize> = expv.iter().enumerate().map(|(i, e)| (&e.0, i)).collect();
    let denial_only = denial_only();
    if !denial_only {
    let mut seen = BTreeSet::new();
    for r in &chain {
        if !exp_hashes.contains_key(&r.hash) {
            match rev.get(&r.hash) {
                Some(n) => {
                    let mut k = kind_of(&a, &z, n).to_string();
                    if k == "ent" {
                        k = "ent-leading-only-to-opted-out-delegations".into();
                    }
                    vfail!(format!("nsec3:chain-has-{k}"), "NSEC3 for {} ({k}); zone {}", show(n), show_zone(&z));
                }
                None => vfail!("nsec3:hash-matches-no-name-under-reference-hash", "{} ; zone {}", String::from_utf8_lossy(&b32hex(&r.hash)), show_zone(&z)),
            }
        }
        vensure!(seen.insert(r.hash.clone()), "nsec3:duplicate-owner", "{}", String::from_utf8_lossy(&b32hex(&r.hash)));
    }
    for e in &expv {
        if !seen.contains(&e.0) {
            let mut k = kind_of(&a, &z, &e.1 .0).to_string();
            if e.3 && a.shared_ent {
                k = "ent-in-zone-with-shared-ent".into();
            }
            vfail!(format!("nsec3:chain-misses-{k}"), "no NSEC3 for {}; zone {}", show(&e.1 .0), show_zone(&z));
        }
    }
    vensure!(chain.len() == expv.len(), "nsec3:chain-length", "{} vs {}", chain.len(), expv.len());
    for (i, r) in chain.iter().enumerate() {
        vensure!(r.hash == expv[i].0, "nsec3:chain-not-in-hash-order", "position {i}");
        let want_next = &expv[(i + 1) % expv.len()].0;
        if &r.next != want_next {
            if i + 1 == chain.len() {
                vfail!("nsec3:last-does-not-close-the-ring", "last next {:02x?} first {:02x?}", r.next, want_next);
            }
            vfail!("nsec3:next-hash-is-not-successor", "position {i}");
        }
        let k = if expv[i].3 { "ent" } else { kind_of(&a, &z, &expv[i].1 .0) };
        let want = expv[i].2;
        if let Some(t) = r.types.difference(want).next() {
            vfail!(format!("nsec3:bitmap-extra-type-at-{k}"), "NSEC3 for {} lists type {t}; want {:?} got {:?}", show(&expv[i].1 .0), want, r.types);
        }
        if let Some(t) = want.difference(&r.types).next() {
            vfail!(format!("nsec3:bitmap-missing-type-at-{k}"), "NSEC3 for {} lacks type {t}; want {:?} got {:?}", show(&expv[i].1 .0), want, r.types);
        }
    }
    }
    if expv.iter().any(|e| e.3) {
        ctx.class("nsec3:ent-record");
    }
    if excluding && a.owners.values().any(|o| o.is_cut && !o.has_ds()) {
        ctx.class("nsec3:delegation-opted-out");
        let all = a.expected_nsec3(false, c.dnskey);
        if all.iter().any(|(n, (_, e))| *e && !exp.contains_key(n)) {
            ctx.class("nsec3:ent-leading-only-to-opted-out");
        }
    }
    // NSEC3PARAM
    {
        let r = &out.nsec3param;
        vensure!(name_eq(&from_name(r.owner()), &z.apex), "nsec3param:owner-not-apex", "{}", show(&from_name(r.owner())));
        let d = r.data();
        vensure!(
            d.hash_algorithm().to_int() == 1 && d.iterations() == c.iterations && d.salt().as_slice() == &c.salt[..],
            "nsec3param:parameters-differ-from-chain",
            "it {} salt {:02x?}",
            d.iterations(),
            d.salt().as_slice()
        );
        let want = match c.ttl_mode {
            0 => z.soa_ttl,
            1 => z.soa_min,
            _ => c.fixed_ttl,
        };
        vensure!((!a.ttl_judged() && c.ttl_mode < 2) || r.ttl().as_secs() == want, "nsec3param:ttl-mode", "mode {} ttl {} want {want}", c.ttl_mode, r.ttl().as_secs());
    }
    // denial probes
    let mut pcl = vec![];
    {
        let mut cx = Nsec3Ctx::new(&chain, &c.salt, c.iterations);
        let m = Nsec3Model { a: &a, expected: &exp, excluding };
        for _ in 0..nprobes {
            let (q, t) = gen_probe(&mut u, &z, &a);
            if let Err((sig, d)) = nsec3_denial(&mut cx, &m, &q, t, &mut pcl) {
                vfail!(sig, "probe ({}, {t}): {d}; zone {}", show(&q), show_zone(&z));
            }
        }
    }
    for c in pcl {
        ctx.class(format!("nsec3-{c}"));
    }
    if interesting {
        ctx.nontrivial(&(&z, &c.salt, c.iterations, c.opt_out, c.exclude, c.dnskey, &how, via_refs));
    }
    Ok(())
}

//------------ bitmap ----------------------------------------------------------

fn run_bitmap(data: &[u8], ctx: &mut Ctx) -> CaseResult {
    let mut u = Unstructured::new(data);
    let n = match pick(&mut u, 6) {
        0 => 0,
        1 => 1,
        2..=4 => pick(&mut u, 12),
        _ => pick(&mut u, 80),
    };
    let mut order: Vec<u16> = vec![];
    for _ in 0..n {
        let t = match pick(&mut u, 8) {
            0 | 1 => [1u16, 2, 5, 6, 15, 16, 28, 43, 46, 47, 48, 50, 51][pick(&mut u, 13)],
            2 => [0u16, 7, 8, 255, 256, 257, 263, 264, 511, 512, 1234, 65280, 65287, 65288, 65535, 32768, 0x7fff, 0xff00, 0x00ff][pick(&mut u, 19)],
            3 => {
                // same window as an earlier one
                if order.is_empty() { u16_(&mut u) } else { (order[pick(&mut u, order.len())] & 0xff00) | byte(&mut u) as u16 }
            }
            4 => (byte(&mut u) as u16) << 8 | [0u16, 7, 8, 255, 248][pick(&mut u, 5)],
            _ => u16_(&mut u),
        };
        order.push(t);
    }
    let set: BTreeSet<u16> = order.iter().copied().collect();
    let windows: BTreeSet<u8> = set.iter().map(|t| (t >> 8) as u8).collect();
    if windows.len() >= 3 {
        ctx.class("bitmap:3+windows");
    }
    if order.len() != set.len() {
        ctx.class("bitmap:duplicate-adds");
    }
    if order.windows(2).any(|w| (w[0] >> 8) > (w[1] >> 8)) {
        ctx.class("bitmap:window-inserted-before-existing");
    }
    if set.is_empty() {
        ctx.class("bitmap:empty");
    }
    let mut b = RtypeBitmapBuilder::<Vec<u8>>::new_vec();
    for t in &order {
        b.add(Rtype::from_int(*t)).expect("vec append");
    }
    let bm: RtypeBitmap<Vec<u8>> = b.finalize();
    let raw = bm.as_slice().to_vec();
    let dec = match decode_bitmap(&raw) {
        Ok(d) => d,
        Err(e) => vfail!("bitmap:malformed", "{e}: {:02x?} from adds {:?}", raw, order),
    };
    vensure!(dec == set, "bitmap:wrong-type-set", "added {:?} decoded {:?}", set, dec);
    vensure!(raw == encode_bitmap(&set), "bitmap:octets-differ-from-reference-encoding", "{:02x?}", raw);
    let it: Vec<u16> = bm.iter().map(|t| t.to_int()).collect();
    vensure!(it == set.iter().copied().collect::<Vec<_>>(), "bitmap:iter-differs", "{:?} vs {:?}", it, set);
    for t in set.iter().take(8) {
        vensure!(bm.contains(Rtype::from_int(*t)), "bitmap:contains-false-for-member", "{t}");
        let nb = t ^ 1;
        vensure!(bm.contains(Rtype::from_int(nb)) == set.contains(&nb), "bitmap:contains-wrong-for-neighbour", "{nb}");
    }
    vensure!(RtypeBitmap::from_octets(raw.clone()).is_ok(), "bitmap:own-output-rejected", "{:02x?}", raw);
    vensure!(bm.is_empty() == set.is_empty(), "bitmap:is_empty", "{:?}", set);
    if windows.len() >= 2 {
        ctx.nontrivial(&order);
        ctx.sample(|| format!("adds {:?}", order));
    }
    Ok(())
}

//------------ hash ------------------------------------------------------------

fn run_hash(data: &[u8], ctx: &mut Ctx) -> CaseResult {
    let mut u = Unstructured::new(data);
    let name = crate::gen::name::name(&mut u, false);
    let c = gen_n3cfg(&mut u);
    let apex: Labels = match pick(&mut u, 4) {
        0 => vec![],
        1 => vec![b"example".to_vec()],
        2 => vec![b"EXAMPLE".to_vec(), b"Com".to_vec()],
        _ => {
            let mut n = crate::gen::name::name(&mut u, false);
            while wire_len(&n) > 222 {
                n.remove(0);
            }
            n
        }
    };
    if name.iter().any(|l| l.iter().any(|b| b.is_ascii_uppercase())) {
        ctx.class("hash:uppercase-in-name");
    }
    if wire_len(&name) >= 253 {
        ctx.class("hash:long-name");
    }
    if name.is_empty() {
        ctx.class("hash:root");
    }
    ctx.class(match c.salt.len() {
        0 => "cfg:salt-0",
        255 => "cfg:salt-255",
        _ => "cfg:salt-other",
    });
    ctx.class(match c.iterations {
        0 => "cfg:iterations-0",
        _ => "cfg:iterations-1+",
    });
    let want = nsec3_hash(&name, &c.salt, c.iterations);
    let salt = Nsec3Salt::from_octets(Bytes::from(c.salt.clone())).expect("salt");
    let n = to_name(&name);
    let got: OwnerHash<Vec<u8>> = match lib_nsec3_hash(&n, Nsec3HashAlgorithm::SHA1, c.iterations, &salt) {
        Ok(h) => h,
        Err(e) => vfail!("hash:error", "{e:?}"),
    };
    vensure!(
        got.as_slice() == &want[..],
        if c.iterations > 0 { "hash:differs-from-rfc5155-with-iterations" } else { "hash:differs-from-rfc5155" },
        "name {} salt {:02x?} it {}: {:02x?} want {:02x?}",
        show(&name),
        c.salt,
        c.iterations,
        got.as_slice(),
        want
    );
    // case-insensitive
    let up: Labels = name.iter().map(|l| l.to_ascii_uppercase()).collect();
    let got2: OwnerHash<Vec<u8>> = lib_nsec3_hash(&to_name(&up), Nsec3HashAlgorithm::SHA1, c.iterations, &salt).expect("hash");
    vensure!(got2.as_slice() == &want[..], "hash:depends-on-case", "{}", show(&name));
    // hashed owner name
    let a = to_name(&apex);
    let on: N = match mk_hashed_nsec3_owner_name::<N, Bytes, Bytes>(&n, Nsec3HashAlgorithm::SHA1, c.iterations, &salt, &a) {
        Ok(x) => x,
        Err(e) => vfail!("hash:owner-name-error", "{e:?}"),
    };
    let ol = from_name(&on);
    vensure!(ol.len() == apex.len() + 1 && ends_with(&ol, &apex), "hash:owner-not-label-plus-apex", "{}", show(&ol));
    vensure!(ol[0].to_ascii_lowercase() == b32hex(&want), "hash:owner-label-not-base32hex", "{} want {}", show(&ol), String::from_utf8_lossy(&b32hex(&want)));
    ctx.nontrivial(&(&name, &c.salt, c.iterations));
    ctx.sample(|| format!("{} salt_len={} it={}", show(&name), c.salt.len(), c.iterations));
    let _ = u32_(&mut u);
    Ok(())
}

//------------ registration ----------------------------------------------------

fn health(c: &BTreeMap<String, u64>, _thorough: bool) -> Result<(), String> {
    for k in [
        "load:from-vec",
        "load:from-iter",
        "load:insert-sequence",
        "load:multi-batch",
        "load:later-batch-straddles-stored-tail",
        "load:straddling-batch-starts-after-stored-tail",
        "load:later-batch-unsorted-inside",
        "zone:apex-only",
        "zone:signed-delegation",
        "zone:unsigned-delegation",
        "zone:glue-or-occluded",
        "zone:occluded-ns-below-cut",
        "zone:glue-sorts-last",
        "zone:child-data-at-cut",
        "zone:ent",
        "zone:ent-shared",
        "zone:ent-nested",
        "zone:wildcard",
        "zone:case-variant-owners",
        "zone:out-of-zone-before",
        "zone:out-of-zone-after",
        "zone:root-apex",
        "zone:soa-at-delegation-point",
        "zone:soa-at-ordinary-non-apex-name",
        "zone:soa-below-cut",
        "zone:dnskey-or-nsec3param-at-ordinary-non-apex-name",
        "zone:dnskey-or-nsec3param-at-delegation-point",
        "zone:dname-at-ordinary-non-apex-name",
        "zone:dname-owner-with-other-types",
        "zone:out-of-zone-before-with-unaligned-apex-suffix",
        "zone:out-of-zone-after-with-unaligned-apex-suffix",
        "zone:first-trailing-owner-has-unaligned-apex-suffix",
        "zone:hostname-like-trailing-look-alike",
        "zone:authoritative-name-with-unaligned-cut-suffix",
        "zone:unaligned-cut-suffix-name-follows-the-cut",
        "zone:ent-with-unaligned-owner-suffix",
        "zone:three-or-more-windows-at-one-name",
        "zone:type-in-window-255",
        "zone:type-1234",
        "zone:type-255",
        "zone:type-256",
        "cfg:opt-out-excluding",
        "cfg:opt-out-including",
        "cfg:no-opt-out",
        "cfg:no-dnskey",
        "cfg:salt-255",
        "cfg:iterations-10+",
        "nsec3:ent-record",
        "nsec3:delegation-opted-out",
        "nsec3:ent-leading-only-to-opted-out",
        "nsec-probe:nxdomain",
        "nsec-probe:nodata",
        "nsec-probe:ent",
        "nsec-probe:wildcard-exists",
        "nsec-probe:below-or-at-cut",
        "nsec3-probe:nxdomain",
        "nsec3-probe:nodata",
        "nsec3-probe:ent",
        "nsec3-probe:wildcard-exists",
        "nsec3-probe:opt-out-span",
        "nsec3-probe:below-or-at-cut",
        "bitmap:3+windows",
        "bitmap:window-inserted-before-existing",
    ] {
        if c.get(k).copied().unwrap_or(0) < 20 {
            return Err(format!("class {k} starved ({})", c.get(k).copied().unwrap_or(0)));
        }
    }
    Ok(())
}

pub fn prop() -> Option<Prop> {
    Some(Prop {
        id: "C13",
        rule: "a case is a generated zone (name tree under an apex with delegations, glue, occluded data, ENTs, wildcards, case variants, out-of-zone records incl. names whose wire form ends in the apex's wire form inside a label, SOA/DNSKEY/NSEC3PARAM at delegation points, ordinary names and below cuts, DNAME (alone or next to other types) and PTR at ordinary names, the apex, delegation points and below cuts, types in several bitmap windows) plus a generator configuration and 5..24 absent/present (name,type) probes; non-trivial = the zone has at least one non-authoritative name below a cut, or at least one empty non-terminal, or owner names that differ only in case (distinct by zone+configuration); bitmap cases are non-trivial with >= 2 windows, hash cases always",
        assumptions: &[
            "input domain: records sorted through SortedRecords (the documented precondition), one class, exactly one SOA at the apex; at any other owner at most one SOA record (child apex data merged in at a delegation point, a stray SOA at an ordinary name, below a cut, outside the zone) — chain structure and bitmaps are judged for such zones, TTLs only when no SOA other than the apex's sits in authoritative data (the generators take TTLs from every SOA they walk over; the statement does not cover TTLs), uniform TTL per RRset (Rrset::new panics otherwise by design), unsigned zone (no RRSIG/NSEC/NSEC3 records in the input), no records below the owner of a DNAME and at most one DNAME per owner (RFC 6672 §2.4; the DNAME owner itself is ordinary authoritative data, not a cut), apex name <= 222 octets so that the hashed owner name fits (longer apexes make generate_nsec3s panic in append_origin; not generated)",
            "NSEC3 zones are class IN (generate_nsec3s hard-codes Class::IN for its output)",
            "reference: RFC 4034 §6.1 order, §4.1.2 bitmap decoder, RFC 5155 §5 hash on ring::digest SHA-1, RFC 4648 base32hex — all in props/c13/refs.rs, checked against the RFC examples in unit tests",
            "with opt-out + exclusion the expected chain omits unsigned delegations and ENTs leading only to them (RFC 5155 §7.1)",
        ],
        subchecks: vec![
            SubCheck::new("nsec", run_nsec, 40_000, 500_000, 1500),
            SubCheck::new("nsec3", run_nsec3, 30_000, 300_000, 1500),
            SubCheck::new("bitmap", run_bitmap, 100_000, 2_000_000, 300),
            SubCheck::new("hash", run_hash, 40_000, 400_000, 700),
        ],
        health: Some(health),
        extra: None,
    })
}
