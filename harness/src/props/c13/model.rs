//! Zone model, generator and the independent analysis (authoritative names,
//! cuts, empty non-terminals, expected chains) for C13.
use super::refs::*;
use crate::gen::{byte, chance, pick, range, u16_, u32_};
use arbitrary::Unstructured;
use std::collections::{BTreeMap, BTreeSet};

pub const A: u16 = 1;
pub const NS: u16 = 2;
pub const CNAME: u16 = 5;
pub const SOA: u16 = 6;
pub const PTR: u16 = 12;
pub const MX: u16 = 15;
pub const TXT: u16 = 16;
pub const AAAA: u16 = 28;
pub const DNAME: u16 = 39;
pub const DS: u16 = 43;
pub const RRSIG: u16 = 46;
pub const NSEC: u16 = 47;
pub const DNSKEY: u16 = 48;
pub const NSEC3PARAM: u16 = 51;

/// Types with a concrete `ZoneRecordData` variant that the harness builds
/// through its constructor; every other code in the pool has no concrete
/// variant and is built as `UnknownRecordData`.
pub const CONCRETE: &[u16] = &[A, NS, CNAME, SOA, PTR, MX, TXT, AAAA, DNAME, DS, DNSKEY, NSEC3PARAM];

/// Type codes without a concrete variant, spread over several bitmap windows.
pub const UNKNOWN_POOL: &[u16] = &[255, 256, 258, 511, 512, 1234, 32768, 65280, 65281, 65534, 65535, 99, 127, 128, 254];

#[derive(Clone, Debug, PartialEq, Eq, Hash)]
pub enum Rd {
    Soa { serial: u32, minimum: u32 },
    Name(Labels),     // NS, CNAME, DNAME, PTR
    Mx(u16, Labels),
    A([u8; 4]),
    Aaaa([u8; 16]),
    Txt(Vec<u8>),
    Ds(u16, u8, u8, Vec<u8>),
    Dnskey(u16, u8, Vec<u8>),
    Nsec3param(u16, Vec<u8>),
    Unknown(Vec<u8>),
}

#[derive(Clone, Debug, PartialEq, Eq, Hash)]
pub struct ZRec {
    pub owner: Labels,
    pub rtype: u16,
    pub ttl: u32,
    pub rd: Rd,
}

#[derive(Clone, Debug, PartialEq, Eq, Hash)]
pub struct Zone {
    pub apex: Labels,
    pub class: u16,
    pub soa_ttl: u32,
    pub soa_min: u32,
    /// In generation order (the harness shuffles nothing itself; the order
    /// is whatever the ops produced, i.e. not sorted).
    pub recs: Vec<ZRec>,
}

//------------ generator -------------------------------------------------------

const LBL: &[&[u8]] = &[
    b"a", b"b", b"c", b"A", b"B", b"ab", b"aB", b"a-", b"a0", b"*", b"ns", b"sub", b"www", b"z", b"zz", b"~", b"_", b"[", b"`", b"{", b"@",
    b"\x00", b"\xff", b"\x7f", b"0", b"-", b"a.b", b"example", b"com", b"Z", b"\xe9", b"\xc9", b"d", b"e", b"x", b"y",
];
const LAST_LBL: &[&[u8]] = &[b"zz", b"~", b"\xff", b"\xff\xff", b"{", b"zzzz"];
const TTLS: &[u32] = &[3600, 0, 1, 60, 300, 86400, 0x7fff_ffff, 0xffff_ffff, 604800];

fn label(u: &mut Unstructured) -> Vec<u8> {
    match pick(u, 8) {
        0..=5 => LBL[pick(u, LBL.len())].to_vec(),
        6 => {
            let n = 1 + pick(u, 4);
            (0..n).map(|_| byte(u)).collect()
        }
        _ => {
            let n = [1usize, 2, 8, 62, 63][pick(u, 5)];
            (0..n).map(|_| crate::gen::pickb(u, b"abAB-_09zZ")).collect()
        }
    }
}

fn ttl(u: &mut Unstructured) -> u32 {
    match pick(u, 6) {
        0..=3 => TTLS[pick(u, TTLS.len())],
        _ => u32_(u),
    }
}

fn plain_type(u: &mut Unstructured) -> u16 {
    match pick(u, 16) {
        0..=3 => A,
        4 => AAAA,
        5 => TXT,
        6 => MX,
        7 => CNAME,
        8 => DS,
        9 => NS,
        // types that normally live at a zone apex only; at any other name
        // they are ordinary data (SOA: a stray or merged-in child apex SOA)
        10 => [DNSKEY, NSEC3PARAM, SOA][pick(u, 3)],
        11..=13 => UNKNOWN_POOL[pick(u, UNKNOWN_POOL.len())],
        14 => {
            // any code without a concrete variant: stay clear of the
            // assigned range the library knows (everything below 262 and the
            // few later ones), except for the pool above
            let t = u16_(u);
            if t < 300 || (32768..=32769).contains(&t) { 1234 } else { t }
        }
        // redirection / name-valued types the library has a concrete variant
        // for and that zone-walking code may be tempted to treat specially:
        // DNAME (RFC 6672: ordinary authoritative data, NOT a zone cut) and
        // PTR; all-zero input still gives A
        _ => [A, DNAME, DNAME, PTR][pick(u, 4)],
    }
}

/// `near` with its first label replaced by "dname-target" (the apex/root: a
/// fixed foreign name), so that a DNAME never points into its own subtree.
fn self_sibling(near: &Labels) -> Labels {
    let mut n: Labels = near.iter().skip(1).cloned().collect();
    n.insert(0, b"dname-target".to_vec());
    n
}

fn rdata_for(u: &mut Unstructured, t: u16, near: &Labels) -> Rd {
    match t {
        A => Rd::A([192, 0, 2, byte(u)]),
        SOA => Rd::Soa { serial: u32_(u), minimum: ttl(u) },
        AAAA => {
            let mut a = [0u8; 16];
            a[0] = 0x20;
            a[1] = 0x01;
            a[15] = byte(u);
            Rd::Aaaa(a)
        }
        NS | CNAME | PTR => {
            let mut n = near.clone();
            if wire_len(&n) + 4 <= 255 {
                n.insert(0, [b"ns".to_vec(), b"ns1".to_vec(), b"a".to_vec()][pick(u, 3)].clone());
            }
            Rd::Name(n)
        }
        DNAME => {
            // redirection target outside the owner's own subtree
            let n = self_sibling(near);
            Rd::Name(if wire_len(&n) > 255 { vec![b"target".to_vec()] } else { n })
        }
        MX => Rd::Mx(u16_(u), near.clone()),
        TXT => Rd::Txt((0..pick(u, 6)).map(|_| byte(u)).collect()),
        DS => Rd::Ds(u16_(u), 8 + pick(u, 8) as u8, 2, (0..32).map(|_| byte(u)).collect()),
        DNSKEY => Rd::Dnskey(256 + pick(u, 2) as u16, 13, (0..pick(u, 8) + 1).map(|_| byte(u)).collect()),
        NSEC3PARAM => Rd::Nsec3param(pick(u, 4) as u16, (0..pick(u, 4)).map(|_| byte(u)).collect()),
        _ => Rd::Unknown((0..pick(u, 6)).map(|_| byte(u)).collect()),
    }
}

struct Builder {
    apex: Labels,
    recs: Vec<ZRec>,
    /// every in-zone name mentioned so far (owners), generation order
    names: Vec<Labels>,
    /// names at which an NS was placed (not the apex)
    cuts: Vec<Labels>,
    /// in-zone names that own a DNAME
    dnames: Vec<Labels>,
    /// TTL per (lowercased owner, type): RRsets must have one TTL
    ttls: BTreeMap<(Labels, u16), u32>,
    max_names: usize,
}

impl Builder {
    fn fits(&self, n: &Labels) -> bool {
        wire_len(n) <= 255 && n.iter().all(|l| !l.is_empty() && l.len() <= 63)
    }
    fn add(&mut self, u: &mut Unstructured, owner: &Labels, t: u16) {
        if !self.fits(owner) || t == RRSIG || t == NSEC || t == 50 {
            return;
        }
        // RFC 6672 §2.4: no data may exist below the owner of a DNAME, and a
        // DNAME RRset is a single record. Zones that break this are outside
        // the input domain (what the chain should say about names below a
        // DNAME is not covered by the statement), so they are not built.
        if ends_with(owner, &self.apex) {
            if self.dnames.iter().any(|d| strictly_below(owner, d)) {
                return;
            }
            if t == DNAME && (self.names.iter().any(|n| strictly_below(n, owner)) || self.dnames.iter().any(|d| name_eq(d, owner))) {
                return;
            }
        }
        let key = (lower(owner), t);
        // exactly one SOA at the apex (placed by gen_zone); elsewhere at most
        // one SOA record per owner (a SOA RRset is a single record)
        if t == SOA && (name_eq(owner, &self.apex) || self.ttls.contains_key(&key)) {
            return;
        }
        let ttl = match self.ttls.get(&key) {
            Some(t) => *t,
            None => {
                let v = ttl(u);
                self.ttls.insert(key, v);
                v
            }
        };
        let rd = rdata_for(u, t, owner);
        self.recs.push(ZRec { owner: owner.clone(), rtype: t, ttl, rd });
        if ends_with(owner, &self.apex) {
            if !self.names.iter().any(|n| n == owner) {
                self.names.push(owner.clone());
            }
            if t == DNAME {
                self.dnames.push(owner.clone());
            }
            if t == NS && !name_eq(owner, &self.apex) && !self.cuts.iter().any(|n| name_eq(n, owner)) {
                self.cuts.push(owner.clone());
            }
        }
    }
    fn full(&self) -> bool {
        self.names.len() >= self.max_names
    }
    fn parent(&self, u: &mut Unstructured) -> Labels {
        // bias to the apex and to recent names
        match pick(u, 4) {
            0 => self.apex.clone(),
            _ => self.names[pick(u, self.names.len())].clone(),
        }
    }
    fn child(&self, u: &mut Unstructured, parent: &Labels, depth: usize) -> Labels {
        let mut n = parent.clone();
        for _ in 0..depth {
            n.insert(0, label(u));
        }
        n
    }
}

/// A name that is NOT at or below `n` although its wire format ends in the
/// wire format of `n`: the first k labels of `n`, length octets included, are
/// the tail of one longer label (`x\007example.com` for `example.com`,
/// `ns0<48 octets>.example` for `<48 octets>.example`, `x\001a\001b` for
/// `a.b`). The prefix pool steers it to sort after / before `n`'s subtree.
fn lookalike(u: &mut Unstructured, n: &Labels, after: bool) -> Option<Labels> {
    if n.is_empty() {
        return None;
    }
    let k = [1usize, 1, 1, 2, 3][pick(u, 5)].min(n.len());
    let mut tail = vec![];
    for l in &n[..k] {
        tail.push(l.len() as u8);
        tail.extend_from_slice(l);
    }
    let pre: &[&[u8]] = if after { &[b"zz", b"~", b"\xff", b"x", b"ns"] } else { &[b"\x00", b"-", b"0", b"a", b"A"] };
    let mut l = pre[pick(u, pre.len())].to_vec();
    if l.len() + tail.len() > 63 {
        l.truncate(1);
    }
    l.extend_from_slice(&tail);
    if l.len() > 63 {
        return None;
    }
    let mut out = vec![l];
    out.extend_from_slice(&n[k..]);
    Some(out)
}

/// Sizes depend on the input only (not on the tier) so that a replay file
/// decodes to the same zone in every tier; about one case in 16 is "big".
pub fn gen_zone(u: &mut Unstructured, allow_class: bool) -> Zone {
    let thorough = byte(u) >= 240;
    let apex: Labels = match pick(u, 11) {
        0 | 1 => vec![b"example".to_vec()],
        2 => vec![b"example".to_vec(), b"com".to_vec()],
        3 => vec![],
        4 => vec![b"eXample".to_vec(), b"COM".to_vec()],
        5 => vec![label(u)],
        6 => {
            // long apex; the hashed owner (33 octets) must still fit: <= 222
            let mut n: Labels = vec![vec![b'l'; 63], vec![b'M'; 63], vec![b'n'; 63]];
            let extra = pick(u, 28);
            if extra > 0 {
                n.insert(0, vec![b'k'; extra]);
            }
            n
        }
        7 => vec![label(u), label(u)],
        8 => vec![b"b".to_vec(), b"m".to_vec()],
        9 => vec![b"m".to_vec()],
        _ => {
            // first label whose length octet is an ASCII digit or '-'
            let n = [48usize, 45, 49, 53, 57][pick(u, 5)];
            vec![vec![b'a'; n], b"example".to_vec()]
        }
    };
    let apex = if wire_len(&apex) > 222 { vec![b"example".to_vec()] } else { apex };
    let class = if allow_class && byte(u) >= 232 { [3u16, 4, 254, 2][pick(u, 4)] } else { 1 };
    let soa_ttl = ttl(u);
    let soa_min = ttl(u);
    let max_names = if thorough { 500 } else { 60 };
    let mut b = Builder { apex: apex.clone(), recs: vec![], names: vec![apex.clone()], cuts: vec![], dnames: vec![], ttls: BTreeMap::new(), max_names };
    b.ttls.insert((lower(&apex), SOA), soa_ttl);
    b.recs.push(ZRec { owner: apex.clone(), rtype: SOA, ttl: soa_ttl, rd: Rd::Soa { serial: u32_(u), minimum: soa_min } });
    if !chance(u, 40) {
        // apex NS (normal zones have it; the generators do not need it)
        b.add(u, &apex.clone(), NS);
    }
    let nops = if thorough { range(u, 0, 160) } else { range(u, 0, 28) };
    for _ in 0..nops {
        if b.full() {
            break;
        }
        match pick(u, 20) {
            0..=3 => {
                // plain node, possibly several labels below its parent (ENTs)
                let p = b.parent(u);
                let d = [1usize, 1, 1, 2, 2, 3][pick(u, 6)];
                let n = b.child(u, &p, d);
                for _ in 0..1 + pick(u, 3) {
                    let t = plain_type(u);
                    b.add(u, &n, t);
                }
            }
            4 | 5 | 6 => {
                // delegation with optional DS, data at the cut that belongs
                // to the child, glue and occluded names below the cut
                let p = b.parent(u);
                let d = [1usize, 1, 2][pick(u, 3)];
                let cut = b.child(u, &p, d);
                b.add(u, &cut, NS);
                if chance(u, 96) {
                    b.add(u, &cut, NS);
                }
                if chance(u, 110) {
                    b.add(u, &cut, DS);
                }
                let cb = byte(u);
                if cb < 70 {
                    let t = [A, AAAA, TXT, MX, 1234, 65280, DNSKEY][pick(u, 7)];
                    b.add(u, &cut, t);
                } else if cb < 104 {
                    // the child's apex records merged into the parent's data:
                    // SOA next to the NS, sometimes more apex-only types
                    b.add(u, &cut, SOA);
                    match pick(u, 4) {
                        0 => b.add(u, &cut, DNSKEY),
                        1 => b.add(u, &cut, NSEC3PARAM),
                        2 => {
                            b.add(u, &cut, DNSKEY);
                            b.add(u, &cut, NSEC3PARAM);
                        }
                        _ => {}
                    }
                }
                for _ in 0..pick(u, 4) {
                    let d = [1usize, 1, 2][pick(u, 3)];
                    let g = b.child(u, &cut, d);
                    let t = [A, SOA, AAAA, TXT, NS, DS, 1234, CNAME, A][pick(u, 9)];
                    b.add(u, &g, t);
                }
            }
            7 => {
                // wildcard
                let p = b.parent(u);
                let mut n = p.clone();
                n.insert(0, b"*".to_vec());
                for _ in 0..1 + pick(u, 2) {
                    let t = plain_type(u);
                    b.add(u, &n, t);
                }
            }
            8 | 9 => {
                // the same name in another case, one more record
                let p = b.names[pick(u, b.names.len())].clone();
                let n: Labels = p.iter().map(|l| l.iter().map(|&c| if c.is_ascii_alphabetic() && byte(u) & 1 == 1 { c ^ 0x20 } else { c }).collect()).collect();
                let t = plain_type(u);
                b.add(u, &n, t);
            }
            10 | 11 => {
                // an ENT shared by two or three branches, optionally nested
                let p = b.parent(u);
                let d = 1 + pick(u, 2);
                let e = b.child(u, &p, d);
                for _ in 0..2 + pick(u, 2) {
                    let d = [1usize, 1, 2][pick(u, 3)];
                    let n = b.child(u, &e, d);
                    let t = plain_type(u);
                    b.add(u, &n, t);
                }
            }
            12 => {
                // one more record at an existing name (may turn it into a
                // cut after the fact, occluding what is below it)
                let n = b.names[pick(u, b.names.len())].clone();
                let t = plain_type(u);
                b.add(u, &n, t);
            }
            13 | 14 => {
                // out-of-zone record (only when the apex is not the root)
                if !apex.is_empty() {
                    let n: Labels = match pick(u, 12) {
                        9 | 10 => lookalike(u, &apex, true).unwrap_or_default(),
                        11 => lookalike(u, &apex, false).unwrap_or_default(),
                        0 => apex[1..].to_vec(),
                        1 => vec![],
                        2 => {
                            // sibling sorting before: first label shortened
                            let mut n = apex.clone();
                            let l = n[0].clone();
                            n[0] = if l.len() > 1 { l[..l.len() - 1].to_vec() } else { vec![0] };
                            n
                        }
                        3 => {
                            // sibling sorting after
                            let mut n = apex.clone();
                            n[0].push(b'0');
                            n
                        }
                        4 => {
                            // looks like a suffix octet-wise but is not one label-wise
                            let mut n = apex.clone();
                            let mut l = b"foo".to_vec();
                            l.extend_from_slice(&n[0]);
                            n[0] = l;
                            n
                        }
                        5 => {
                            // the apex as a prefix instead of a suffix
                            let mut n = apex.clone();
                            n.push(b"zz".to_vec());
                            n
                        }
                        6 => {
                            // below a sibling that sorts after
                            let mut n = apex.clone();
                            n[0].push(b'0');
                            n.insert(0, label(u));
                            n
                        }
                        7 => vec![label(u)],
                        _ => {
                            let mut n = apex[1..].to_vec();
                            n.insert(0, label(u));
                            n
                        }
                    };
                    if !ends_with(&n, &apex) {
                        let t = [A, NS, TXT, 1234, DS, AAAA, SOA][pick(u, 7)];
                        b.add(u, &n, t);
                    }
                }
            }
            15 => {
                // deep chain of labels: nested ENTs
                let p = b.parent(u);
                let d = 3 + pick(u, 5);
                let n = b.child(u, &p, d);
                let t = plain_type(u);
                b.add(u, &n, t);
            }
            16 => {
                // a delegation that sorts last in the zone, with glue
                let mut cut = apex.clone();
                cut.insert(0, LAST_LBL[pick(u, LAST_LBL.len())].to_vec());
                b.add(u, &cut, NS);
                if chance(u, 80) {
                    b.add(u, &cut, DS);
                }
                let mut g = cut.clone();
                g.insert(0, LAST_LBL[pick(u, LAST_LBL.len())].to_vec());
                let t = [A, AAAA, NS][pick(u, 3)];
                b.add(u, &g, t);
            }
            17 => {
                // something below an existing cut
                if !b.cuts.is_empty() {
                    let c = b.cuts[pick(u, b.cuts.len())].clone();
                    match pick(u, 4) {
                        0 => {
                            // an authoritative sibling of the cut whose wire
                            // form ends in the cut's wire form (not below it)
                            let after = chance(u, 200);
                            if let Some(n) = lookalike(u, &c, after) {
                                // sometimes only as an empty non-terminal
                                let n = if pick(u, 3) == 2 { b.child(u, &n, 1) } else { n };
                                if ends_with(&n, &apex) {
                                    let t = plain_type(u);
                                    b.add(u, &n, t);
                                }
                            }
                        }
                        d => {
                            let g = b.child(u, &c, d.min(2));
                            let t = [A, NS, TXT, 65280, DS, AAAA][pick(u, 6)];
                            b.add(u, &g, t);
                        }
                    }
                } else if b.names.len() > 1 {
                    // the same for an ordinary name (ancestor tracking of the
                    // NSEC3 ENT walk uses the same "is below" test)
                    let c = b.names[1 + pick(u, b.names.len() - 1)].clone();
                    let after = chance(u, 200);
                    if let Some(n) = lookalike(u, &c, after) {
                        let n = if pick(u, 3) == 2 { b.child(u, &n, 1) } else { n };
                        if ends_with(&n, &apex) {
                            let t = plain_type(u);
                            b.add(u, &n, t);
                        }
                    }
                }
            }
            18 => {
                // bulk: several siblings under one parent
                let p = b.parent(u);
                let k = if thorough { 1 + pick(u, 40) } else { 1 + pick(u, 8) };
                for i in 0..k {
                    if b.full() {
                        break;
                    }
                    let mut n = p.clone();
                    n.insert(0, format!("h{i}").into_bytes());
                    b.add(u, &n, A);
                }
            }
            _ => {
                // many types at one name (several windows)
                let n = b.names[pick(u, b.names.len())].clone();
                for _ in 0..2 + pick(u, 6) {
                    let t = UNKNOWN_POOL[pick(u, UNKNOWN_POOL.len())];
                    b.add(u, &n, t);
                }
            }
        }
    }
    Zone { apex, class, soa_ttl, soa_min, recs: b.recs }
}

//------------ analysis --------------------------------------------------------

#[derive(Clone, Debug, Default)]
pub struct Owner {
    /// all types owned (authoritative or not)
    pub types: BTreeSet<u16>,
    pub authoritative: bool,
    pub is_cut: bool,
    pub is_apex: bool,
}

impl Owner {
    pub fn has_ds(&self) -> bool {
        self.types.contains(&DS)
    }
    /// Types the zone is authoritative for at this owner.
    pub fn visible_types(&self) -> BTreeSet<u16> {
        if self.is_cut {
            self.types.iter().copied().filter(|t| *t == NS || *t == DS).collect()
        } else {
            self.types.clone()
        }
    }
}

pub struct Analysis {
    pub apex: Canon,
    /// in-zone owners (lowercased)
    pub owners: BTreeMap<Canon, Owner>,
    /// ENTs with respect to all authoritative owners (what NSEC sees)
    pub ents_all: BTreeSet<Canon>,
    pub n_out_before: usize,
    pub n_out_after: usize,
    pub n_nonauth: usize,
    pub case_variants: bool,
    pub last_is_nonauth: bool,
    pub shared_ent: bool,
    pub nested_ent: bool,
    /// SOA at an authoritative owner other than the apex (a delegation point
    /// or an ordinary name); the generators read every SOA they walk over, so
    /// for such zones TTLs are not judged (the statement does not cover them)
    pub soa_at_cut: bool,
    pub soa_at_plain: bool,
    pub soa_below_cut: bool,
    pub soa_out_of_zone: bool,
    /// DNSKEY / NSEC3PARAM owned by an authoritative non-apex, non-cut name
    pub apex_only_type_at_plain: bool,
    /// out-of-zone owners whose wire form ends in the apex's wire form
    /// although they are not below the apex (tail starts inside a label)
    pub unaligned_before: usize,
    pub unaligned_after: usize,
    /// the first owner after the zone is such a look-alike
    pub first_trailing_is_unaligned: bool,
    /// the same shape inside the zone: an authoritative owner whose wire form
    /// ends in the wire form of a cut / of another owner it is not below
    pub lookalike_of_cut: bool,
    pub lookalike_follows_cut: bool,
    pub lookalike_of_owner: bool,
    /// an empty non-terminal with that shape
    pub lookalike_ent: bool,
}

/// Octet-wise (case-insensitive) suffix of the wire forms without being a
/// label-wise suffix.
pub fn unaligned_suffix(n: &Labels, base: &Labels) -> bool {
    if ends_with(n, base) {
        return false;
    }
    let (w, b) = (to_wire(&lower(n)), to_wire(&lower(base)));
    w.len() > b.len() && w[w.len() - b.len()..] == b[..]
}

pub fn ancestors_within(n: &Labels, apex: &Labels) -> Vec<Labels> {
    // proper ancestors of n that are strictly below the apex, nearest first
    let mut out = vec![];
    let mut k = 1;
    while n.len() > apex.len() + k {
        out.push(n[k..].to_vec());
        k += 1;
    }
    out
}

pub fn analyse(z: &Zone) -> Analysis {
    let apexc = Canon::of(&z.apex);
    let mut owners: BTreeMap<Canon, Owner> = BTreeMap::new();
    let mut spellings: BTreeMap<Canon, BTreeSet<Labels>> = BTreeMap::new();
    let (mut before, mut after) = (0, 0);
    let (mut unaligned_before, mut unaligned_after) = (0, 0);
    let mut soa_out_of_zone = false;
    let mut first_trailing: Option<Canon> = None;
    for r in &z.recs {
        if ends_with(&r.owner, &z.apex) {
            let c = Canon::of(&r.owner);
            owners.entry(c.clone()).or_default().types.insert(r.rtype);
            spellings.entry(c).or_default().insert(r.owner.clone());
            continue;
        }
        soa_out_of_zone |= r.rtype == SOA;
        let ua = !z.apex.is_empty() && unaligned_suffix(&r.owner, &z.apex);
        if canon_cmp(&r.owner, &z.apex) == std::cmp::Ordering::Less {
            before += 1;
            unaligned_before += ua as usize;
        } else {
            after += 1;
            unaligned_after += ua as usize;
            let c = Canon::of(&r.owner);
            if first_trailing.as_ref().map(|f| c < *f).unwrap_or(true) {
                first_trailing = Some(c);
            }
        }
    }
    let first_trailing_is_unaligned = first_trailing.map(|f| unaligned_suffix(&f.0, &z.apex)).unwrap_or(false);
    let cut_names: BTreeSet<Canon> = owners.iter().filter(|(n, o)| **n != apexc && o.types.contains(&NS)).map(|(n, _)| n.clone()).collect();
    let mut n_nonauth = 0;
    for (n, o) in owners.iter_mut() {
        o.is_apex = *n == apexc;
        let below_cut = ancestors_within(&n.0, &apexc.0).iter().any(|a| cut_names.contains(&Canon(a.clone())));
        o.authoritative = !below_cut;
        o.is_cut = o.authoritative && cut_names.contains(n);
        if below_cut {
            n_nonauth += 1;
        }
    }
    let mut ents_all = BTreeSet::new();
    let mut ent_children: BTreeMap<Canon, BTreeSet<Labels>> = BTreeMap::new();
    let mut nested_ent = false;
    for (n, o) in owners.iter() {
        if !o.authoritative {
            continue;
        }
        let mut prev = n.0.clone();
        let mut ent_run = 0;
        for a in ancestors_within(&n.0, &apexc.0) {
            let c = Canon(a.clone());
            if !owners.contains_key(&c) {
                ents_all.insert(c.clone());
                ent_children.entry(c).or_default().insert(prev.clone());
                ent_run += 1;
                if ent_run >= 2 {
                    nested_ent = true;
                }
            } else {
                ent_run = 0;
            }
            prev = a;
        }
    }
    let shared_ent = ent_children.values().any(|s| s.len() >= 2);
    let soa_at_cut = owners.values().any(|o| o.is_cut && o.types.contains(&SOA));
    let soa_at_plain = owners.values().any(|o| o.authoritative && !o.is_cut && !o.is_apex && o.types.contains(&SOA));
    let soa_below_cut = owners.values().any(|o| !o.authoritative && o.types.contains(&SOA));
    let apex_only_type_at_plain = owners.values().any(|o| o.authoritative && !o.is_cut && !o.is_apex && (o.types.contains(&DNSKEY) || o.types.contains(&NSEC3PARAM)));
    let (mut lookalike_of_cut, mut lookalike_follows_cut, mut lookalike_of_owner, mut lookalike_ent) = (false, false, false, false);
    {
        let auth: Vec<(&Canon, &Owner)> = owners.iter().filter(|(_, o)| o.authoritative).collect();
        let wires: Vec<Vec<u8>> = auth.iter().map(|(n, _)| to_wire(&n.0)).collect();
        for e in &ents_all {
            let we = to_wire(&e.0);
            if auth.iter().enumerate().any(|(j, (c, co))| !co.is_apex && we.len() > wires[j].len() && we.ends_with(&wires[j]) && unaligned_suffix(&e.0, &c.0)) {
                lookalike_ent = true;
            }
        }
        for (i, (n, _)) in auth.iter().enumerate() {
            for (j, (c, co)) in auth.iter().enumerate() {
                if i != j && !co.is_apex && wires[i].len() > wires[j].len() && wires[i].ends_with(&wires[j]) && unaligned_suffix(&n.0, &c.0) {
                    lookalike_of_owner = true;
                    if co.is_cut {
                        lookalike_of_cut = true;
                        // authoritative owners are in canonical order and the
                        // names below a cut are not in `auth`
                        if i == j + 1 {
                            lookalike_follows_cut = true;
                        }
                    }
                }
            }
        }
    }
    let last_is_nonauth = owners.iter().next_back().map(|(_, o)| !o.authoritative).unwrap_or(false);
    let case_variants = spellings.values().any(|s| s.len() > 1);
    Analysis {
        apex: apexc,
        owners,
        ents_all,
        n_out_before: before,
        n_out_after: after,
        n_nonauth,
        case_variants,
        last_is_nonauth,
        shared_ent,
        nested_ent,
        soa_at_cut,
        soa_at_plain,
        soa_below_cut,
        soa_out_of_zone,
        apex_only_type_at_plain,
        unaligned_before,
        unaligned_after,
        first_trailing_is_unaligned,
        lookalike_of_cut,
        lookalike_follows_cut,
        lookalike_of_owner,
        lookalike_ent,
    }
}

impl Analysis {
    /// TTLs are judged only when the apex SOA is the only SOA the generators
    /// walk over (SOAs below a cut or outside the zone are never looked at).
    pub fn ttl_judged(&self) -> bool {
        !self.soa_at_cut && !self.soa_at_plain
    }
    pub fn auth_owner(&self, n: &Labels) -> Option<&Owner> {
        self.owners.get(&Canon::of(n)).filter(|o| o.authoritative)
    }
    /// The cut at or above `n`, if any.
    pub fn covering_cut(&self, n: &Labels) -> Option<(&Canon, &Owner)> {
        let c = Canon::of(n);
        let mut cand = vec![c.0.clone()];
        cand.extend(ancestors_within(&c.0, &self.apex.0));
        // topmost cut wins; there is at most one authoritative cut on the path
        for a in cand {
            if let Some((k, o)) = self.owners.get_key_value(&Canon(a)) {
                if o.is_cut {
                    return Some((k, o));
                }
            }
        }
        None
    }
    /// Expected NSEC chain: (owner, types) in canonical order.
    pub fn expected_nsec(&self, dnskey: bool) -> Vec<(Canon, BTreeSet<u16>)> {
        self.owners
            .iter()
            .filter(|(_, o)| o.authoritative)
            .map(|(n, o)| {
                let mut t = o.visible_types();
                t.insert(NSEC);
                t.insert(RRSIG);
                if o.is_apex && dnskey {
                    t.insert(DNSKEY);
                }
                (n.clone(), t)
            })
            .collect()
    }
    /// Names that get an NSEC3 RR because they own authoritative data
    /// (delegations included unless opted out).
    pub fn nsec3_owners(&self, exclude_insecure: bool) -> BTreeMap<Canon, BTreeSet<u16>> {
        self.owners
            .iter()
            .filter(|(_, o)| o.authoritative && !(exclude_insecure && o.is_cut && !o.has_ds()))
            .map(|(n, o)| (n.clone(), o.visible_types()))
            .collect()
    }
    /// Expected NSEC3 set: name -> types (unsorted by hash; caller hashes).
    pub fn expected_nsec3(&self, exclude_insecure: bool, dnskey: bool) -> BTreeMap<Canon, (BTreeSet<u16>, bool)> {
        let mut out: BTreeMap<Canon, (BTreeSet<u16>, bool)> = BTreeMap::new();
        let s = self.nsec3_owners(exclude_insecure);
        for (n, vis) in &s {
            let o = &self.owners[n];
            let mut t = vis.clone();
            if !o.is_cut || o.has_ds() {
                t.insert(RRSIG);
            }
            if o.is_apex {
                t.insert(NSEC3PARAM);
                if dnskey {
                    t.insert(DNSKEY);
                }
            }
            out.insert(n.clone(), (t, false));
        }
        for n in s.keys() {
            for a in ancestors_within(&n.0, &self.apex.0) {
                let c = Canon(a);
                if !s.contains_key(&c) {
                    out.entry(c).or_insert((BTreeSet::new(), true));
                }
            }
        }
        out
    }
}

pub fn show_zone(z: &Zone) -> String {
    let mut s = format!("apex={} class={} soa_ttl={} soa_min={} recs=[", show(&z.apex), z.class, z.soa_ttl, z.soa_min);
    for r in &z.recs {
        s.push_str(&format!("{} {} T{}; ", show(&r.owner), r.ttl, r.rtype));
    }
    s.push(']');
    s
}
