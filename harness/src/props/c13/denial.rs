//! Denial oracles: given the chain the library *returned* (decoded by the
//! independent walkers) and the zone model, decide whether a probe
//! (qname, qtype) for something absent is provably absent — the way a
//! validator would (RFC 4035 §5.4, RFC 5155 §8).
use super::model::*;
use super::refs::*;
use std::collections::{BTreeMap, BTreeSet};

pub type Fail = (String, String);

fn fail<T>(sig: &str, detail: String) -> Result<T, Fail> {
    Err((sig.to_string(), detail))
}

//------------ NSEC ------------------------------------------------------------

pub struct NsecRec {
    pub owner: Labels,
    pub next: Labels,
    pub types: BTreeSet<u16>,
}

/// RFC 4034 §4.1.1 / RFC 4035 §5.4: owner < x < next in canonical order; the
/// last NSEC (next <= owner) covers everything after its owner (and nothing
/// sorts before the apex inside the zone).
fn nsec_covers(r: &NsecRec, x: &Labels) -> bool {
    use std::cmp::Ordering::*;
    let o = canon_cmp(&r.owner, x);
    let n = canon_cmp(x, &r.next);
    if canon_cmp(&r.owner, &r.next) == Less {
        o == Less && n == Less
    } else {
        o == Less || n == Less
    }
}

fn nsec_match<'a>(chain: &'a [NsecRec], x: &Labels) -> Option<&'a NsecRec> {
    chain.iter().find(|r| name_eq(&r.owner, x))
}

fn nsec_cover<'a>(chain: &'a [NsecRec], x: &Labels, what: &str) -> Result<&'a NsecRec, Fail> {
    let c: Vec<&NsecRec> = chain.iter().filter(|r| nsec_covers(r, x)).collect();
    match c.len() {
        0 => fail(&format!("nsec-denial:no-nsec-covers-{what}"), format!("no NSEC covers {}", show(x))),
        1 => {
            let r = c[0];
            // an NSEC from a delegation point must not be used to deny
            // names below that delegation (RFC 4035 §5.4 / RFC 6840 §4.1)
            if r.types.contains(&NS) && !r.types.contains(&SOA) && strictly_below(x, &r.owner) {
                return fail(
                    &format!("nsec-denial:{what}-covered-by-ancestor-delegation"),
                    format!("{} covered by the NSEC of delegation {}", show(x), show(&r.owner)),
                );
            }
            Ok(r)
        }
        n => fail(&format!("nsec-denial:{what}-covered-by-several"), format!("{n} NSECs cover {}", show(x))),
    }
}

/// Is `x` an empty non-terminal or a name with data, in what NSEC sees?
fn nsec_exists(a: &Analysis, x: &Labels) -> bool {
    a.auth_owner(x).is_some() || a.ents_all.contains(&Canon::of(x))
}

pub fn nsec_denial(chain: &[NsecRec], a: &Analysis, dnskey: bool, qname: &Labels, qtype: u16, classes: &mut Vec<&'static str>) -> Result<(), Fail> {
    // referral?
    if let Some((cut, o)) = a.covering_cut(qname) {
        if !(name_eq(&cut.0, qname) && qtype == DS) {
            classes.push("probe:below-or-at-cut");
            let Some(r) = nsec_match(chain, &cut.0) else {
                return fail("nsec-denial:delegation-without-nsec", format!("no NSEC at delegation {}", show(&cut.0)));
            };
            if !r.types.contains(&NS) || r.types.contains(&SOA) || r.types.contains(&DS) != o.has_ds() {
                return fail(
                    "nsec-denial:delegation-nsec-bitmap",
                    format!("NSEC at delegation {} has {:?}; DS in zone: {}", show(&cut.0), r.types, o.has_ds()),
                );
            }
            // RFC 4035 §2.3: bits for RRsets the parent is not authoritative
            // for MUST be clear
            if let Some(t) = r.types.iter().find(|t| ![NS, DS, NSEC, RRSIG].contains(t)) {
                return fail("nsec-denial:delegation-nsec-lists-child-side-type", format!("NSEC at delegation {} lists type {t}", show(&cut.0)));
            }
            // names below the cut are not authoritative: no NSEC there
            if strictly_below(qname, &cut.0) && nsec_match(chain, qname).is_some() {
                return fail("nsec-denial:nsec-at-name-below-delegation", format!("NSEC at {} below cut {}", show(qname), show(&cut.0)));
            }
            return Ok(());
        }
    }
    if let Some(r) = nsec_match(chain, qname) {
        let Some(o) = a.auth_owner(qname) else {
            return fail("nsec-denial:nsec-at-name-without-authoritative-data", format!("NSEC at {}", show(qname)));
        };
        let mut t = o.visible_types();
        t.insert(NSEC);
        t.insert(RRSIG);
        if o.is_apex && dnskey {
            t.insert(DNSKEY);
        }
        if t.contains(&qtype) {
            classes.push("probe:type-present");
            if !r.types.contains(&qtype) {
                return fail("nsec-denial:present-type-denied", format!("type {qtype} exists at {} but the NSEC lacks it", show(qname)));
            }
        } else {
            classes.push("probe:nodata");
            if r.types.contains(&qtype) {
                return fail("nsec-denial:absent-type-not-deniable", format!("type {qtype} absent at {} but set in the NSEC", show(qname)));
            }
        }
        return Ok(());
    }
    if a.auth_owner(qname).is_some() {
        return fail("nsec-denial:existing-name-has-no-nsec", format!("{} owns authoritative data but has no NSEC", show(qname)));
    }
    let cov = nsec_cover(chain, qname, "qname")?;
    if a.ents_all.contains(&Canon::of(qname)) {
        classes.push("probe:ent");
        // NODATA at an empty non-terminal: the covering NSEC's next name is
        // below qname, which shows qname exists without data.
        if !strictly_below(&cov.next, qname) {
            return fail(
                "nsec-denial:ent-not-shown-by-next-name",
                format!("ENT {}: covering NSEC {} -> {}", show(qname), show(&cov.owner), show(&cov.next)),
            );
        }
        return Ok(());
    }
    // name error: closest encloser and wildcard
    classes.push("probe:nxdomain");
    let mut ce = qname[1..].to_vec();
    while !nsec_exists(a, &ce) {
        if ce.len() <= a.apex.0.len() {
            break;
        }
        ce = ce[1..].to_vec();
    }
    // a validator must not be able to read the covering NSEC as "qname is an
    // ENT": its next name must not be below qname
    if strictly_below(&cov.next, qname) {
        return fail("nsec-denial:nonexistent-name-looks-like-ent", format!("{} -> {} covers {}", show(&cov.owner), show(&cov.next), show(qname)));
    }
    let mut wc = ce.clone();
    wc.insert(0, b"*".to_vec());
    if wire_len(&wc) > 255 {
        return Ok(());
    }
    if let Some(o) = a.auth_owner(&wc) {
        classes.push("probe:wildcard-exists");
        let Some(r) = nsec_match(chain, &wc) else {
            return fail("nsec-denial:wildcard-without-nsec", format!("{} has no NSEC", show(&wc)));
        };
        let has = o.visible_types().contains(&qtype) || qtype == NSEC || qtype == RRSIG;
        if r.types.contains(&qtype) != has {
            return fail("nsec-denial:wildcard-bitmap", format!("wildcard {} type {qtype}: zone {has}, NSEC {}", show(&wc), !has));
        }
    } else if a.covering_cut(&wc).is_some() {
        // "*.ce" would sit at/below a delegation; nothing to prove here
    } else {
        let c = nsec_cover(chain, &wc, "wildcard")?;
        if a.ents_all.contains(&Canon::of(&wc)) && !strictly_below(&c.next, &wc) {
            return fail("nsec-denial:ent-not-shown-by-next-name", format!("wildcard ENT {}", show(&wc)));
        }
    }
    Ok(())
}

//------------ NSEC3 -----------------------------------------------------------

pub struct Nsec3Rec {
    pub hash: Vec<u8>,
    pub next: Vec<u8>,
    pub flags: u8,
    pub types: BTreeSet<u16>,
}

pub struct Nsec3Ctx<'a> {
    pub chain: &'a [Nsec3Rec],
    pub by_hash: BTreeMap<Vec<u8>, usize>,
    pub salt: &'a [u8],
    pub iterations: u16,
    pub cache: BTreeMap<Labels, Vec<u8>>,
}

impl<'a> Nsec3Ctx<'a> {
    pub fn new(chain: &'a [Nsec3Rec], salt: &'a [u8], iterations: u16) -> Self {
        let by_hash = chain.iter().enumerate().map(|(i, r)| (r.hash.clone(), i)).collect();
        Nsec3Ctx { chain, by_hash, salt, iterations, cache: BTreeMap::new() }
    }
    fn h(&mut self, n: &Labels) -> Vec<u8> {
        let k = lower(n);
        if let Some(v) = self.cache.get(&k) {
            return v.clone();
        }
        let v = nsec3_hash(&k, self.salt, self.iterations).to_vec();
        self.cache.insert(k, v.clone());
        v
    }
    fn matching(&mut self, n: &Labels) -> Option<&'a Nsec3Rec> {
        let h = self.h(n);
        self.by_hash.get(&h).map(|i| &self.chain[*i])
    }
    /// RFC 5155 §8.3 "covers": owner hash < h < next hash, or for the last
    /// NSEC3 (next <= owner) h > owner or h < next.
    fn covering(&mut self, n: &Labels) -> Vec<&'a Nsec3Rec> {
        let h = self.h(n);
        self.chain
            .iter()
            .filter(|r| {
                if r.hash < r.next {
                    r.hash < h && h < r.next
                } else {
                    h > r.hash || h < r.next
                }
            })
            .collect()
    }
}

pub struct Nsec3Model<'a> {
    pub a: &'a Analysis,
    /// names that must have an NSEC3 (owners and ENTs), with expected types
    pub expected: &'a BTreeMap<Canon, (BTreeSet<u16>, bool)>,
    /// opt-out flag set and unsigned delegations excluded
    pub excluding: bool,
}

pub fn nsec3_denial(cx: &mut Nsec3Ctx, m: &Nsec3Model, qname: &Labels, qtype: u16, classes: &mut Vec<&'static str>) -> Result<(), Fail> {
    let a = m.a;
    if let Some((cut, o)) = a.covering_cut(qname) {
        if !(name_eq(&cut.0, qname) && qtype == DS) {
            classes.push("probe:below-or-at-cut");
            if let Some(r) = cx.matching(&cut.0) {
                if m.excluding && !o.has_ds() {
                    return fail("nsec3-denial:opted-out-delegation-has-nsec3", format!("{}", show(&cut.0)));
                }
                if !r.types.contains(&NS) || r.types.contains(&SOA) || r.types.contains(&DS) != o.has_ds() {
                    return fail("nsec3-denial:delegation-nsec3-bitmap", format!("NSEC3 for delegation {} has {:?}; DS in zone: {}", show(&cut.0), r.types, o.has_ds()));
                }
                if let Some(t) = r.types.iter().find(|t| ![NS, DS, RRSIG].contains(t)) {
                    return fail("nsec3-denial:delegation-nsec3-lists-child-side-type", format!("NSEC3 for delegation {} lists type {t}", show(&cut.0)));
                }
                if r.types.contains(&RRSIG) != o.has_ds() {
                    return fail("nsec3-denial:delegation-nsec3-rrsig-bit", format!("NSEC3 for delegation {}: RRSIG bit {} but DS in zone: {}", show(&cut.0), !o.has_ds(), o.has_ds()));
                }
                if strictly_below(qname, &cut.0) && cx.matching(qname).is_some() {
                    return fail("nsec3-denial:nsec3-for-name-below-delegation", format!("NSEC3 matches {} below cut {}", show(qname), show(&cut.0)));
                }
                return Ok(());
            }
            // no NSEC3 for the delegation: only allowed for an unsigned
            // delegation under opt-out, shown by an opt-out span over the
            // next closer name (RFC 5155 §7.2.7 / §8.9 referral to unsigned)
            if !(m.excluding && !o.has_ds()) {
                return fail("nsec3-denial:delegation-without-nsec3", format!("{}", show(&cut.0)));
            }
            classes.push("probe:opt-out-span");
            return optout_span(cx, a, &cut.0);
        }
    }
    let key = Canon::of(qname);
    if let Some(r) = cx.matching(qname) {
        let Some((t, is_ent)) = m.expected.get(&key) else {
            return fail("nsec3-denial:nsec3-matches-name-that-should-have-none", format!("{}", show(qname)));
        };
        if *is_ent {
            classes.push("probe:ent");
        }
        if t.contains(&qtype) {
            classes.push("probe:type-present");
            if !r.types.contains(&qtype) {
                return fail("nsec3-denial:present-type-denied", format!("type {qtype} at {}", show(qname)));
            }
        } else {
            classes.push("probe:nodata");
            if r.types.contains(&qtype) {
                return fail("nsec3-denial:absent-type-not-deniable", format!("type {qtype} at {}", show(qname)));
            }
        }
        return Ok(());
    }
    if let Some((_, is_ent)) = m.expected.get(&key) {
        return fail(
            if *is_ent { "nsec3-denial:ent-has-no-nsec3" } else { "nsec3-denial:existing-name-has-no-nsec3" },
            format!("{}", show(qname)),
        );
    }
    // closest provable encloser
    let mut pce = qname[1..].to_vec();
    let mut nc = qname.clone();
    loop {
        if cx.matching(&pce).is_some() {
            break;
        }
        if pce.len() <= a.apex.0.len() {
            return fail("nsec3-denial:apex-has-no-nsec3", format!("no closest encloser for {}", show(qname)));
        }
        nc = pce.clone();
        pce = pce[1..].to_vec();
    }
    if !m.expected.contains_key(&Canon::of(&pce)) {
        return fail("nsec3-denial:nsec3-matches-name-that-should-have-none", format!("{}", show(&pce)));
    }
    let cov = cx.covering(&nc);
    if cov.len() != 1 {
        return fail("nsec3-denial:next-closer-not-covered-once", format!("{} NSEC3s cover next closer {} of {}", cov.len(), show(&nc), show(qname)));
    }
    // does the next closer name exist in the zone although it has no NSEC3?
    let nc_exists = a.auth_owner(&nc).is_some() || a.ents_all.contains(&Canon::of(&nc));
    if m.expected.contains_key(&Canon::of(&nc)) {
        return fail("nsec3-denial:existing-name-has-no-nsec3", format!("{} (ancestor of probe {})", show(&nc), show(qname)));
    }
    if nc_exists {
        // only an opted-out delegation or an ENT leading only to such
        classes.push("probe:opt-out-span");
        if !m.excluding {
            return fail("nsec3-denial:existing-name-has-no-nsec3", format!("{} without opt-out", show(&nc)));
        }
        if cov[0].flags & 1 == 0 {
            return fail("nsec3-denial:opt-out-span-without-flag", format!("NSEC3 covering {} has flags {}", show(&nc), cov[0].flags));
        }
        return Ok(());
    }
    classes.push("probe:nxdomain");
    let mut wc = pce.clone();
    wc.insert(0, b"*".to_vec());
    if wire_len(&wc) > 255 {
        return Ok(());
    }
    if name_eq(&wc, &nc) {
        // qname is below a non-existent wildcard name; covered already
        return Ok(());
    }
    if let Some(r) = cx.matching(&wc) {
        classes.push("probe:wildcard-exists");
        let Some((t, _)) = m.expected.get(&Canon::of(&wc)) else {
            return fail("nsec3-denial:nsec3-matches-name-that-should-have-none", format!("{}", show(&wc)));
        };
        if r.types.contains(&qtype) != t.contains(&qtype) {
            return fail("nsec3-denial:wildcard-bitmap", format!("wildcard {} type {qtype}", show(&wc)));
        }
        return Ok(());
    }
    if m.expected.contains_key(&Canon::of(&wc)) {
        return fail("nsec3-denial:existing-name-has-no-nsec3", format!("wildcard {}", show(&wc)));
    }
    let cov = cx.covering(&wc);
    if cov.len() != 1 {
        return fail("nsec3-denial:wildcard-not-covered-once", format!("{} NSEC3s cover {}", cov.len(), show(&wc)));
    }
    let wc_exists = a.auth_owner(&wc).is_some() || a.ents_all.contains(&Canon::of(&wc));
    if wc_exists && !(m.excluding && cov[0].flags & 1 == 1) {
        return fail("nsec3-denial:opt-out-span-without-flag", format!("wildcard {}", show(&wc)));
    }
    Ok(())
}

fn optout_span(cx: &mut Nsec3Ctx, a: &Analysis, cut: &Labels) -> Result<(), Fail> {
    let mut pce = cut[1..].to_vec();
    let mut nc = cut.clone();
    loop {
        if cx.matching(&pce).is_some() {
            break;
        }
        if pce.len() <= a.apex.0.len() {
            return fail("nsec3-denial:apex-has-no-nsec3", format!("no closest encloser for {}", show(cut)));
        }
        nc = pce.clone();
        pce = pce[1..].to_vec();
    }
    let cov = cx.covering(&nc);
    if cov.len() != 1 {
        return fail("nsec3-denial:next-closer-not-covered-once", format!("{} NSEC3s cover {}", cov.len(), show(&nc)));
    }
    if cov[0].flags & 1 == 0 {
        return fail("nsec3-denial:opt-out-span-without-flag", format!("NSEC3 covering {} has flags {}", show(&nc), cov[0].flags));
    }
    Ok(())
}
