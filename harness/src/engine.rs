//! Engine: proptest-driven runner over byte vectors, shrinking, evidence,
//! known findings, replay files, hang watchdog.
//!
//! Every property is a list of sub-checks. A sub-check is a pure function
//! `fn(&[u8], &mut Ctx) -> Result<(), Violation>`: it decodes the bytes into
//! a structured case (via `arbitrary::Unstructured`), runs the code under
//! test against its oracle and records class labels / non-triviality in
//! `Ctx`. The bytes come from proptest (PBT driver), from libFuzzer (fuzz
//! driver, see /verif/fuzz) or from a replay file.

use proptest::prelude::*;
use proptest::test_runner::{
    Config, RngAlgorithm, TestCaseError, TestError, TestRng, TestRunner,
};
use std::cell::RefCell;
use std::collections::{BTreeMap, HashSet};
use std::hash::{Hash, Hasher};
use std::panic::{catch_unwind, AssertUnwindSafe};
use std::path::{Path, PathBuf};
use std::sync::atomic::{AtomicBool, AtomicU64, Ordering};
use std::sync::{Arc, Mutex};
use std::time::{Duration, Instant};

//------------ Violation -----------------------------------------------------

#[derive(Clone, Debug)]
pub struct Violation {
    /// Structural signature: entry point + failure kind + trigger condition.
    pub sig: String,
    /// Human-readable detail.
    pub detail: String,
}

impl Violation {
    pub fn new(sig: impl Into<String>, detail: impl Into<String>) -> Self {
        Violation { sig: sig.into(), detail: detail.into() }
    }
}

pub type CaseResult = Result<(), Violation>;

#[macro_export]
macro_rules! vfail {
    ($sig:expr, $($arg:tt)*) => {
        return Err($crate::engine::Violation::new($sig, format!($($arg)*)))
    };
}

#[macro_export]
macro_rules! vensure {
    ($cond:expr, $sig:expr, $($arg:tt)*) => {
        if !($cond) {
            return Err($crate::engine::Violation::new($sig, format!($($arg)*)));
        }
    };
}

//------------ Ctx -----------------------------------------------------------

/// Per-case context.
#[derive(Default)]
pub struct Ctx {
    pub classes: Vec<String>,
    pub nontrivial_key: Option<u64>,
    pub sample: Option<String>,
    /// Violations that matched a known finding and were tolerated inside the
    /// case (so that the rest of the case is still checked).
    pub tolerated: Vec<String>,
    /// When true (replay --strict) nothing is tolerated.
    pub strict: bool,
    pub known: Arc<Vec<KnownFinding>>,
    pub prop: &'static str,
    /// thorough tier: props may scale structure sizes.
    pub thorough: bool,
    /// By default a panic that happened during the case but was swallowed
    /// (by a tokio task boundary, a catch_unwind inside the code under
    /// test, ...) is reported as a violation. Set to true to disable.
    pub allow_swallowed_panics: bool,
}

impl Ctx {
    pub fn class(&mut self, c: impl Into<String>) {
        let c = c.into();
        if !self.classes.contains(&c) {
            self.classes.push(c);
        }
    }
    /// Marks the case non-trivial; `key` identifies the decoded case for
    /// distinctness counting.
    pub fn nontrivial<H: Hash>(&mut self, key: &H) {
        let mut h = Fnv::default();
        key.hash(&mut h);
        self.nontrivial_key = Some(h.finish());
    }
    pub fn sample(&mut self, f: impl FnOnce() -> String) {
        if self.sample.is_none() {
            let mut s = f();
            if s.len() > 600 {
                let mut cut = 600;
                while !s.is_char_boundary(cut) {
                    cut -= 1;
                }
                s.truncate(cut);
                s.push('…');
            }
            self.sample = Some(s);
        }
    }
    /// Report a violation found in the middle of a case. If it matches a
    /// known finding it is counted and the case continues (returns Ok);
    /// otherwise the violation is returned as Err.
    pub fn report(&mut self, v: Violation) -> CaseResult {
        if !self.strict {
            if let Some(k) = match_known(&self.known, self.prop, &v.sig) {
                self.tolerated.push(k.id.clone());
                return Ok(());
            }
        }
        Err(v)
    }
    pub fn is_known(&self, sig: &str) -> bool {
        !self.strict && match_known(&self.known, self.prop, sig).is_some()
    }
}

#[derive(Default)]
pub struct Fnv(u64);
impl Hasher for Fnv {
    fn finish(&self) -> u64 {
        self.0
    }
    fn write(&mut self, bytes: &[u8]) {
        let mut h = if self.0 == 0 { 0xcbf29ce484222325 } else { self.0 };
        for b in bytes {
            h ^= *b as u64;
            h = h.wrapping_mul(0x100000001b3);
        }
        self.0 = h;
    }
}
pub fn fnv<H: Hash>(x: &H) -> u64 {
    let mut h = Fnv::default();
    x.hash(&mut h);
    h.finish()
}

//------------ Known findings ------------------------------------------------

#[derive(Clone, Debug)]
pub struct KnownFinding {
    pub property: String,
    pub id: String,
    pub status: String, // "known" | "fixed"
    /// Signature prefix patterns (a violation matches if its sig starts with
    /// one of them).
    pub sigs: Vec<String>,
    pub what: String,
    pub replay: Option<String>,
    pub commit: Option<String>,
}

pub fn verif_root() -> PathBuf {
    if let Ok(p) = std::env::var("VERIF_ROOT") {
        return PathBuf::from(p);
    }
    PathBuf::from("/verif")
}

pub fn load_known() -> Vec<KnownFinding> {
    let mut all = load_known_file(&verif_root().join("known_findings.json"));
    if let Ok(rd) = std::fs::read_dir(verif_root().join("known_findings.d")) {
        let mut files: Vec<PathBuf> = rd.filter_map(|e| e.ok().map(|e| e.path())).filter(|p| p.extension().map(|e| e == "json").unwrap_or(false)).collect();
        files.sort();
        for f in files {
            all.extend(load_known_file(&f));
        }
    }
    all
}

fn load_known_file(p: &Path) -> Vec<KnownFinding> {
    let Ok(s) = std::fs::read_to_string(p) else { return vec![] };
    let v: serde_json::Value = match serde_json::from_str(&s) {
        Ok(v) => v,
        Err(e) => {
            eprintln!("{} unreadable: {e}", p.display());
            std::process::exit(2);
        }
    };
    let mut out = vec![];
    if let Some(a) = v.get("findings").and_then(|x| x.as_array()) {
        for e in a {
            let gs = |k: &str| e.get(k).and_then(|x| x.as_str()).map(|s| s.to_string());
            out.push(KnownFinding {
                property: gs("property").unwrap_or_default(),
                id: gs("id").unwrap_or_default(),
                status: gs("status").unwrap_or_default(),
                sigs: e
                    .get("signatures")
                    .and_then(|x| x.as_array())
                    .map(|a| a.iter().filter_map(|s| s.as_str().map(|s| s.to_string())).collect())
                    .unwrap_or_default(),
                what: gs("what").unwrap_or_default(),
                replay: gs("replay"),
                commit: gs("commit"),
            });
        }
    }
    out
}

pub fn match_known<'a>(
    known: &'a [KnownFinding],
    prop: &str,
    sig: &str,
) -> Option<&'a KnownFinding> {
    known.iter().find(|k| {
        k.property == prop
            && k.status == "known"
            && k.sigs.iter().any(|s| sig == s || (s.ends_with('*') && sig.starts_with(&s[..s.len() - 1])))
    })
}

//------------ Panic capture -------------------------------------------------

thread_local! {
    static PANICS: RefCell<Vec<String>> = const { RefCell::new(Vec::new()) };
    static CAPTURE: RefCell<bool> = const { RefCell::new(false) };
}

pub fn install_panic_hook() {
    let default = std::panic::take_hook();
    std::panic::set_hook(Box::new(move |info| {
        let capturing = CAPTURE.with(|c| *c.borrow());
        let loc = info
            .location()
            .map(|l| {
                let f = l.file();
                // strip absolute prefix up to "src/"
                let f = f.rsplit_once("/repo/").map(|x| x.1).unwrap_or(f);
                format!("{}:{}", f, l.line())
            })
            .unwrap_or_default();
        let msg = if let Some(s) = info.payload().downcast_ref::<&str>() {
            s.to_string()
        } else if let Some(s) = info.payload().downcast_ref::<String>() {
            s.clone()
        } else {
            "<non-string panic>".to_string()
        };
        if capturing {
            PANICS.with(|p| p.borrow_mut().push(format!("{loc}|{msg}")));
        } else {
            default(info);
        }
    }));
}

/// Take panics recorded on this thread since the last call.
pub fn take_panics() -> Vec<String> {
    PANICS.with(|p| std::mem::take(&mut *p.borrow_mut()))
}

/// Turn a recorded panic "file:line|msg" into a stable signature
/// `panic:<file>:<msg with digits removed, truncated>`.
pub fn panic_sig(p: &str) -> String {
    let (loc, msg) = p.split_once('|').unwrap_or((p, ""));
    let file = loc.rsplit_once(':').map(|x| x.0).unwrap_or(loc);
    let mut m: String = msg
        .chars()
        .filter(|c| !c.is_ascii_digit())
        .take(60)
        .collect();
    m = m.replace('\n', " ");
    format!("panic:{file}:{m}")
}

/// Run `f` catching panics; a panic becomes a Violation.
pub fn guarded<T>(
    what: &str,
    f: impl FnOnce() -> T,
) -> Result<T, Violation> {
    let prev = CAPTURE.with(|c| std::mem::replace(&mut *c.borrow_mut(), true));
    let r = catch_unwind(AssertUnwindSafe(f));
    CAPTURE.with(|c| *c.borrow_mut() = prev);
    match r {
        Ok(v) => Ok(v),
        Err(_) => {
            let ps = take_panics();
            let p = ps.last().cloned().unwrap_or_else(|| "?|?".into());
            Err(Violation::new(panic_sig(&p), format!("panic in {what}: {p}")))
        }
    }
}

//------------ Sub-check registry ----------------------------------------------

pub type RunFn = fn(&[u8], &mut Ctx) -> CaseResult;

#[derive(Clone)]
pub struct SubCheck {
    pub name: &'static str,
    pub run: RunFn,
    pub quick: u64,
    pub thorough: u64,
    /// Maximum length of the generated byte vector.
    pub max_len: usize,
    /// If non-empty: deterministic enumeration instead of random
    /// generation; run(i.to_le_bytes()) for i in 0..n.
    pub sweep: Option<fn(bool) -> u64>,
}

impl SubCheck {
    pub const fn new(name: &'static str, run: RunFn, quick: u64, thorough: u64, max_len: usize) -> Self {
        SubCheck { name, run, quick, thorough, max_len, sweep: None }
    }
    pub const fn sweep(name: &'static str, run: RunFn, n: fn(bool) -> u64) -> Self {
        SubCheck { name, run, quick: 0, thorough: 0, max_len: 8, sweep: Some(n) }
    }
}

pub struct Prop {
    pub id: &'static str,
    pub rule: &'static str,
    pub assumptions: &'static [&'static str],
    pub subchecks: Vec<SubCheck>,
    /// Health assertions on the aggregated class histogram: returns
    /// Err(message) → exit 2 (inconclusive), never a violation.
    pub health: Option<fn(&BTreeMap<String, u64>, bool) -> Result<(), String>>,
    /// Extra whole-run checks that are not case-based (e.g. exhaustive
    /// multi-threaded sweeps). Returns (evaluations, nontrivial, samples).
    pub extra: Option<fn(&RunOpts, &mut Agg) -> Result<(), (Violation, Vec<u8>)>>,
}

pub struct RunOpts {
    pub thorough: bool,
    pub seed: u64,
    pub threads: usize,
    pub scale: f64,
    pub only: Option<String>,
}

//------------ Aggregation ---------------------------------------------------

#[derive(Default)]
pub struct Agg {
    pub evaluations: u64,
    pub nontrivial: HashSet<u64>,
    pub classes: BTreeMap<String, u64>,
    pub samples: Vec<String>,
    pub class_samples: BTreeMap<String, String>,
    pub excluded_known: BTreeMap<String, u64>,
    pub sub: BTreeMap<String, (u64, u64)>, // name -> (evaluations, nontrivial)
    pub exhaustive: bool,
    pub extra_notes: BTreeMap<String, serde_json::Value>,
}

impl Agg {
    fn absorb(&mut self, sub: &str, ctx: &Ctx) {
        self.evaluations += 1;
        let e = self.sub.entry(sub.to_string()).or_default();
        e.0 += 1;
        for c in &ctx.classes {
            *self.classes.entry(c.clone()).or_default() += 1;
            if let Some(s) = &ctx.sample {
                if !self.class_samples.contains_key(c) && self.class_samples.len() < 40 {
                    self.class_samples.insert(c.clone(), s.clone());
                }
            }
        }
        for t in &ctx.tolerated {
            *self.excluded_known.entry(t.clone()).or_default() += 1;
        }
        if let Some(k) = ctx.nontrivial_key {
            if self.nontrivial.insert(k) {
                e.1 += 1;
                if self.samples.len() < 6 {
                    if let Some(s) = &ctx.sample {
                        self.samples.push(format!("[{sub}] {s}"));
                    }
                }
            }
        }
    }
    fn merge(&mut self, o: Agg) {
        self.evaluations += o.evaluations;
        for k in o.nontrivial {
            self.nontrivial.insert(k);
        }
        for (k, v) in o.classes {
            *self.classes.entry(k).or_default() += v;
        }
        for s in o.samples {
            if self.samples.len() < 12 {
                self.samples.push(s);
            }
        }
        for (k, v) in o.class_samples {
            if self.class_samples.len() < 40 {
                self.class_samples.entry(k).or_insert(v);
            }
        }
        for (k, v) in o.excluded_known {
            *self.excluded_known.entry(k).or_default() += v;
        }
        for (k, v) in o.sub {
            let e = self.sub.entry(k).or_default();
            e.0 += v.0;
            e.1 += v.1;
        }
    }
}

//------------ Crash handler -------------------------------------------------

// A case that makes the process die by a signal (SIGABRT from a
// non-unwinding panic such as a failed unsafe-precondition check, SIGSEGV,
// SIGBUS, SIGILL) is reported as a violation: the handler runs on the
// faulting thread, writes that thread's current case to a replay file,
// prints the VIOLATION line and exits with status 1.
thread_local! {
    static CUR_CASE: RefCell<Option<(&'static str, &'static str, Vec<u8>)>> = const { RefCell::new(None) };
}
static CRASH_REPLAY_PATH: Mutex<Option<PathBuf>> = Mutex::new(None);

pub fn set_current_case(prop: &'static str, sub: &'static str, bytes: &[u8]) {
    CUR_CASE.with(|c| *c.borrow_mut() = Some((prop, sub, bytes.to_vec())));
}
pub fn clear_current_case() {
    CUR_CASE.with(|c| *c.borrow_mut() = None);
}

extern "C" fn crash_handler(sig: libc::c_int) {
    // best effort; we are about to die anyway
    let info = CUR_CASE.try_with(|c| c.try_borrow().ok().and_then(|c| c.clone())).ok().flatten();
    if let Some((prop, sub, bytes)) = info {
        let fixed = CRASH_REPLAY_PATH.try_lock().ok().and_then(|g| g.clone());
        let replaying = fixed.is_some();
        let path = fixed.unwrap_or_else(|| out_dir().join(prop).join(format!("crash-{sub}-{:016x}.case", fnv(&bytes))));
        if !replaying {
            write_case(&path, prop, sub, &bytes, Some(&Violation::new(format!("crash:signal-{sig}"), "the process was killed by a signal while running this case (non-unwinding panic / memory fault)")));
            write_min_evidence(prop, 1);
        }
        println!("sig=crash:signal-{sig}");
        println!("VIOLATION property={prop} replay={}", path.display());
        use std::io::Write;
        let _ = std::io::stdout().flush();
        unsafe { libc::_exit(1) };
    }
    unsafe {
        libc::signal(sig, libc::SIG_DFL);
        libc::raise(sig);
    }
}

pub fn install_crash_handler(replay_path: Option<PathBuf>) {
    *CRASH_REPLAY_PATH.lock().unwrap() = replay_path;
    unsafe {
        for s in [libc::SIGABRT, libc::SIGSEGV, libc::SIGBUS, libc::SIGILL] {
            libc::signal(s, crash_handler as usize);
        }
    }
}

//------------ Watchdog ------------------------------------------------------

struct Slot {
    started: Option<Instant>,
    bytes: Vec<u8>,
    sub: &'static str,
}

static HANG_REPORTED: AtomicBool = AtomicBool::new(false);

//------------ Byte strategies -------------------------------------------------

fn biased_byte() -> impl Strategy<Value = u8> {
    prop_oneof![
        6 => any::<u8>(),
        2 => Just(0u8),
        1 => Just(0xffu8),
        1 => Just(0xc0u8),
        2 => 0u8..16,
        1 => Just(0x3fu8),
        1 => Just(0x40u8),
    ]
}

pub fn bytes_strategy(max_len: usize) -> BoxedStrategy<Vec<u8>> {
    let small = max_len.min(48);
    let mid = max_len.min(400);
    prop_oneof![
        3 => proptest::collection::vec(any::<u8>(), 0..=small),
        4 => proptest::collection::vec(any::<u8>(), 0..=mid),
        2 => proptest::collection::vec(any::<u8>(), 0..=max_len),
        2 => proptest::collection::vec(biased_byte(), 0..=mid),
        1 => proptest::collection::vec(biased_byte(), 0..=max_len),
    ]
    .boxed()
}

//------------ Running one case ------------------------------------------------

pub fn run_case(
    prop: &'static str,
    sc: &SubCheck,
    bytes: &[u8],
    known: &Arc<Vec<KnownFinding>>,
    strict: bool,
    thorough: bool,
) -> (Ctx, CaseResult) {
    let mut ctx = Ctx {
        strict,
        known: known.clone(),
        prop,
        thorough,
        ..Default::default()
    };
    let _ = take_panics();
    set_current_case(prop, sc.name, bytes);
    let r = guarded(sc.name, || (sc.run)(bytes, &mut ctx));
    clear_current_case();
    let mut r = match r {
        Ok(r) => r,
        Err(v) => Err(v),
    };
    let swallowed = take_panics();
    if r.is_ok() && !ctx.allow_swallowed_panics {
        if let Some(p) = swallowed.first() {
            r = Err(Violation::new(panic_sig(p), format!("a panic occurred during the case and was swallowed (task boundary?): {p}")));
        }
    }
    // Known findings reported as the final result of a case are tolerated
    // too (counted), unless strict.
    let r = match r {
        Err(v) => ctx.report(v),
        ok => ok,
    };
    (ctx, r)
}

//------------ Shard runner ----------------------------------------------------

fn derive_seed(seed: u64, prop: &str, sub: &str, shard: u64) -> [u8; 32] {
    let mut out = [0u8; 32];
    let mut x = fnv(&(seed, prop, sub, shard));
    for chunk in out.chunks_mut(8) {
        // splitmix64
        x = x.wrapping_add(0x9E3779B97F4A7C15);
        let mut z = x;
        z = (z ^ (z >> 30)).wrapping_mul(0xBF58476D1CE4E5B9);
        z = (z ^ (z >> 27)).wrapping_mul(0x94D049BB133111EB);
        z ^= z >> 31;
        chunk.copy_from_slice(&z.to_le_bytes());
    }
    out
}

pub struct Found {
    pub sub: &'static str,
    pub bytes: Vec<u8>,
    pub v: Violation,
}

#[allow(clippy::too_many_arguments)]
fn run_shard(
    prop: &'static str,
    sc: &SubCheck,
    cases: u64,
    seed: [u8; 32],
    known: &Arc<Vec<KnownFinding>>,
    thorough: bool,
    slot: &Arc<Mutex<Slot>>,
    stop: &Arc<AtomicBool>,
) -> (Agg, Option<Found>) {
    let mut agg = Agg::default();
    if cases == 0 {
        return (agg, None);
    }
    let config = Config {
        cases: cases as u32,
        failure_persistence: None,
        max_shrink_iters: 3000,
        max_shrink_time: 0,
        max_global_rejects: 0,
        verbose: 0,
        ..Config::default()
    };
    let mut runner = TestRunner::new_with_rng(
        config,
        TestRng::from_seed(RngAlgorithm::ChaCha, &seed),
    );
    let strat = bytes_strategy(sc.max_len);
    let target_sig: RefCell<Option<String>> = RefCell::new(None);
    let first: RefCell<Option<Violation>> = RefCell::new(None);
    let agg_cell = RefCell::new(&mut agg);
    let res = runner.run(&strat, |bytes| {
        if stop.load(Ordering::Relaxed) && target_sig.borrow().is_none() {
            return Ok(());
        }
        {
            let mut s = slot.lock().unwrap();
            s.started = Some(Instant::now());
            s.bytes.clear();
            s.bytes.extend_from_slice(&bytes);
            s.sub = sc.name;
        }
        let (ctx, r) = run_case(prop, sc, &bytes, known, false, thorough);
        slot.lock().unwrap().started = None;
        let shrinking = target_sig.borrow().is_some();
        if !shrinking {
            agg_cell.borrow_mut().absorb(sc.name, &ctx);
        }
        match r {
            Ok(()) => Ok(()),
            Err(v) => {
                if let Some(t) = target_sig.borrow().as_ref() {
                    // during shrinking only accept same-signature failures
                    if &v.sig == t {
                        *first.borrow_mut() = Some(v.clone());
                        return Err(TestCaseError::fail(v.sig));
                    } else {
                        return Ok(());
                    }
                }
                *target_sig.borrow_mut() = Some(v.sig.clone());
                *first.borrow_mut() = Some(v.clone());
                stop.store(true, Ordering::Relaxed);
                Err(TestCaseError::fail(v.sig))
            }
        }
    });
    drop(agg_cell);
    match res {
        Ok(()) => (agg, None),
        Err(TestError::Fail(_, bytes)) => {
            let v = first.borrow().clone().unwrap();
            (agg, Some(Found { sub: sc.name, bytes, v }))
        }
        Err(TestError::Abort(r)) => {
            eprintln!("proptest aborted: {r}");
            std::process::exit(2);
        }
    }
}

fn run_sweep_shard(
    prop: &'static str,
    sc: &SubCheck,
    lo: u64,
    hi: u64,
    known: &Arc<Vec<KnownFinding>>,
    thorough: bool,
    stop: &Arc<AtomicBool>,
) -> (Agg, Option<Found>) {
    let mut agg = Agg::default();
    for i in lo..hi {
        if stop.load(Ordering::Relaxed) {
            break;
        }
        let bytes = i.to_le_bytes();
        let (ctx, r) = run_case(prop, sc, &bytes, known, false, thorough);
        agg.absorb(sc.name, &ctx);
        if let Err(v) = r {
            stop.store(true, Ordering::Relaxed);
            return (agg, Some(Found { sub: sc.name, bytes: bytes.to_vec(), v }));
        }
    }
    (agg, None)
}

//------------ Replay files ------------------------------------------------------

pub fn write_case(path: &Path, prop: &str, sub: &str, bytes: &[u8], v: Option<&Violation>) {
    if let Some(d) = path.parent() {
        let _ = std::fs::create_dir_all(d);
    }
    let mut s = format!("vcheck-case v1 {prop} {sub}\n");
    for b in bytes {
        s.push_str(&format!("{b:02x}"));
    }
    s.push('\n');
    if let Some(v) = v {
        s.push_str(&format!("# sig: {}\n", v.sig));
        for l in v.detail.lines().take(40) {
            s.push_str(&format!("# {l}\n"));
        }
    }
    std::fs::write(path, s).expect("write replay file");
}

pub fn read_case(path: &Path) -> Result<(String, String, Vec<u8>), String> {
    let s = std::fs::read_to_string(path).map_err(|e| format!("{}: {e}", path.display()))?;
    let mut lines = s.lines();
    let head = lines.next().ok_or("empty case file")?;
    let parts: Vec<&str> = head.split_whitespace().collect();
    if parts.len() != 4 || parts[0] != "vcheck-case" {
        return Err(format!("bad header in {}", path.display()));
    }
    let hex = lines.next().unwrap_or("");
    let hex = hex.trim();
    if hex.len() % 2 != 0 {
        return Err("odd hex".into());
    }
    let mut bytes = Vec::with_capacity(hex.len() / 2);
    for i in (0..hex.len()).step_by(2) {
        bytes.push(u8::from_str_radix(&hex[i..i + 2], 16).map_err(|e| e.to_string())?);
    }
    Ok((parts[2].to_string(), parts[3].to_string(), bytes))
}

//------------ Driver ------------------------------------------------------------

pub struct RunResult {
    pub violations: Vec<(Found, PathBuf)>,
    pub agg: Agg,
    pub wall_s: f64,
}

fn out_dir() -> PathBuf {
    verif_root().join("out").join("violations")
}

/// Second-pass byte shrinker (after proptest): tries deleting chunks and
/// zeroing bytes while the same signature is preserved. Bounded.
fn post_shrink(
    prop: &'static str,
    sc: &SubCheck,
    mut bytes: Vec<u8>,
    sig: &str,
    known: &Arc<Vec<KnownFinding>>,
    thorough: bool,
) -> Vec<u8> {
    let fails = |b: &[u8]| -> bool {
        let (_, r) = run_case(prop, sc, b, known, false, thorough);
        matches!(r, Err(v) if v.sig == sig)
    };
    let mut budget = 4000u32;
    let mut chunk = (bytes.len() / 2).max(1);
    while chunk >= 1 && budget > 0 {
        let mut i = 0;
        let mut progressed = false;
        while i + chunk <= bytes.len() && budget > 0 {
            let mut cand = bytes.clone();
            cand.drain(i..i + chunk);
            budget -= 1;
            if fails(&cand) {
                bytes = cand;
                progressed = true;
            } else {
                i += chunk;
            }
        }
        if !progressed {
            if chunk == 1 {
                break;
            }
            chunk /= 2;
        }
    }
    for i in 0..bytes.len() {
        if budget == 0 {
            break;
        }
        if bytes[i] != 0 {
            let old = bytes[i];
            bytes[i] = 0;
            budget -= 1;
            if !fails(&bytes) {
                bytes[i] = old;
            }
        }
    }
    bytes
}

pub fn run_prop(prop: &Prop, opts: &RunOpts) -> RunResult {
    let t0 = Instant::now();
    let known = Arc::new(load_known());
    let mut total = Agg::default();
    let mut violations: Vec<(Found, PathBuf)> = vec![];

    // watchdog (covers the replay tier as well)
    let threads = opts.threads.max(1);
    let slots: Vec<Arc<Mutex<Slot>>> = (0..threads)
        .map(|_| Arc::new(Mutex::new(Slot { started: None, bytes: vec![], sub: "" })))
        .collect();
    let done = Arc::new(AtomicBool::new(false));
    // watchdog
    let wd = {
        let slots = slots.clone();
        let done = done.clone();
        let pid = prop.id;
        std::thread::spawn(move || watchdog(pid, slots, done))
    };

    // 1. regression tier: committed replays
    let rdir = verif_root().join("replays").join(prop.id);
    let mut replayed = 0u64;
    if let Ok(rd) = std::fs::read_dir(&rdir) {
        let mut files: Vec<PathBuf> = rd.filter_map(|e| e.ok().map(|e| e.path())).filter(|p| p.extension().map(|e| e == "case").unwrap_or(false)).collect();
        files.sort();
        for f in files {
            let (_p, sub, bytes) = match read_case(&f) {
                Ok(x) => x,
                Err(e) => {
                    eprintln!("replay file unreadable: {e}");
                    std::process::exit(2);
                }
            };
            let Some(sc) = prop.subchecks.iter().find(|s| s.name == sub) else {
                eprintln!("replay {} names unknown subcheck {sub}", f.display());
                continue;
            };
            {
                let mut g = slots[0].lock().unwrap();
                g.started = Some(Instant::now());
                g.bytes = bytes.clone();
                g.sub = sc.name;
            }
            let (ctx, r) = run_case(prop.id, sc, &bytes, &known, false, opts.thorough);
            slots[0].lock().unwrap().started = None;
            replayed += 1;
            for t in &ctx.tolerated {
                *total.excluded_known.entry(t.clone()).or_default() += 1;
            }
            if let Err(v) = r {
                let found = Found { sub: sc.name, bytes, v };
                violations.push((found, f.clone()));
            }
        }
    }
    total.extra_notes.insert("replayed_regressions".into(), replayed.into());

    // 2. PBT tier
    if violations.is_empty() {
        for sc in &prop.subchecks {
            if let Some(o) = &opts.only {
                if o != sc.name {
                    continue;
                }
            }
            let stop = Arc::new(AtomicBool::new(false));
            let results: Vec<(Agg, Option<Found>)> = if let Some(nf) = sc.sweep {
                let n = nf(opts.thorough);
                let per = n.div_ceil(threads as u64);
                std::thread::scope(|s| {
                    let hs: Vec<_> = (0..threads as u64)
                        .map(|t| {
                            let known = known.clone();
                            let stop = stop.clone();
                            let lo = (t * per).min(n);
                            let hi = ((t + 1) * per).min(n);
                            s.spawn(move || run_sweep_shard(prop.id, sc, lo, hi, &known, opts.thorough, &stop))
                        })
                        .collect();
                    hs.into_iter().map(|h| h.join().unwrap()).collect()
                })
            } else {
                let n = ((if opts.thorough { sc.thorough } else { sc.quick }) as f64 * opts.scale) as u64;
                let per = n.div_ceil(threads as u64);
                std::thread::scope(|s| {
                    let hs: Vec<_> = (0..threads as u64)
                        .map(|t| {
                            let known = known.clone();
                            let stop = stop.clone();
                            let slot = slots[t as usize].clone();
                            let seed = derive_seed(opts.seed, prop.id, sc.name, t);
                            let cases = per.min(n.saturating_sub(t * per));
                            std::thread::Builder::new()
                                .stack_size(64 << 20)
                                .spawn_scoped(s, move || run_shard(prop.id, sc, cases, seed, &known, opts.thorough, &slot, &stop))
                                .unwrap()
                        })
                        .collect();
                    hs.into_iter().map(|h| h.join().unwrap()).collect()
                })
            };
            let mut found_here: Option<Found> = None;
            for (a, f) in results {
                total.merge(a);
                if let Some(f) = f {
                    // keep the smallest
                    match &found_here {
                        Some(g) if g.bytes.len() <= f.bytes.len() => {}
                        _ => found_here = Some(f),
                    }
                }
            }
            if let Some(mut f) = found_here {
                if sc.sweep.is_none() {
                    f.bytes = post_shrink(prop.id, sc, f.bytes, &f.v.sig, &known, opts.thorough);
                    // recompute detail from the minimal case
                    let (_, r) = run_case(prop.id, sc, &f.bytes, &known, false, opts.thorough);
                    if let Err(v) = r {
                        f.v = v;
                    }
                }
                let path = out_dir().join(prop.id).join(format!("{}-{:016x}.case", sc.name, fnv(&f.bytes)));
                write_case(&path, prop.id, sc.name, &f.bytes, Some(&f.v));
                violations.push((f, path));
                break; // stop at first violating subcheck
            }
        }
    }

    // 3. extra (non case-based) checks
    if violations.is_empty() {
        if let Some(extra) = prop.extra {
            if let Err((v, bytes)) = extra(opts, &mut total) {
                let path = out_dir().join(prop.id).join(format!("extra-{:016x}.case", fnv(&bytes)));
                write_case(&path, prop.id, "extra", &bytes, Some(&v));
                violations.push((Found { sub: "extra", bytes, v }, path));
            }
        }
    }

    done.store(true, Ordering::Relaxed);
    let _ = wd.join();
    RunResult { violations, agg: total, wall_s: t0.elapsed().as_secs_f64() }
}

fn watchdog(prop: &'static str, slots: Vec<Arc<Mutex<Slot>>>, done: Arc<AtomicBool>) {
    let soft = Duration::from_secs(
        std::env::var("VERIF_HANG_SOFT_S").ok().and_then(|s| s.parse().ok()).unwrap_or(20),
    );
    let mut confirmed_ok: HashSet<u64> = HashSet::new();
    while !done.load(Ordering::Relaxed) {
        std::thread::sleep(Duration::from_millis(500));
        for s in &slots {
            let (bytes, sub) = {
                let g = s.lock().unwrap();
                match g.started {
                    Some(t) if t.elapsed() > soft => (g.bytes.clone(), g.sub),
                    _ => continue,
                }
            };
            let key = fnv(&(&bytes, sub));
            if confirmed_ok.contains(&key) {
                continue;
            }
            // isolated confirmation in a child process
            let path = out_dir().join(prop).join(format!("hang-{sub}-{key:016x}.case"));
            write_case(&path, prop, sub, &bytes, None);
            let exe = std::env::current_exe().unwrap();
            let mut child = std::process::Command::new(exe)
                .arg("replay")
                .arg(prop)
                .arg(&path)
                .arg("--quiet")
                .spawn()
                .expect("spawn isolated replay");
            let limit = Duration::from_secs(
                std::env::var("VERIF_HANG_HARD_S").ok().and_then(|s| s.parse().ok()).unwrap_or(90),
            );
            let t0 = Instant::now();
            let mut finished = false;
            while t0.elapsed() < limit {
                if let Ok(Some(_)) = child.try_wait() {
                    finished = true;
                    break;
                }
                std::thread::sleep(Duration::from_millis(200));
            }
            if finished {
                confirmed_ok.insert(key);
                let _ = std::fs::remove_file(&path);
            } else {
                let _ = child.kill();
                let _ = child.wait();
                if !HANG_REPORTED.swap(true, Ordering::SeqCst) {
                    // A confirmed isolated timeout: report as violation. The
                    // evidence for this run is minimal because the worker
                    // thread can not be stopped.
                    write_case(
                        &path,
                        prop,
                        sub,
                        &bytes,
                        Some(&Violation::new(format!("hang:{sub}"), "case did not finish within the isolated hard limit")),
                    );
                    write_min_evidence(prop, 1);
                    println!("VIOLATION property={prop} replay={}", path.display());
                    std::process::exit(1);
                }
            }
        }
    }
}

static RUN_META: Mutex<Option<(String, u64)>> = Mutex::new(None);
pub static EVALS_HINT: AtomicU64 = AtomicU64::new(0);

pub fn set_run_meta(tier: &str, seed: u64) {
    *RUN_META.lock().unwrap() = Some((tier.to_string(), seed));
}

fn write_min_evidence(prop: &str, violations: i64) {
    let (tier, seed) = RUN_META.lock().unwrap().clone().unwrap_or(("quick".into(), 0));
    let v = serde_json::json!({
        "property_id": prop, "tier": tier, "seed": seed, "level": "exploration",
        "coverage": {"evaluations": 1, "distinct_nontrivial": 2, "rule": "run aborted by a confirmed hang; counts not available", "samples": ["hang"]},
        "wall_s": 0.0, "violations": violations
    });
    let p = verif_root().join("evidence").join(format!("{prop}.json"));
    let _ = std::fs::create_dir_all(p.parent().unwrap());
    let _ = std::fs::write(p, serde_json::to_string_pretty(&v).unwrap());
}

pub fn write_evidence(prop: &Prop, opts: &RunOpts, res: &RunResult, known_lines: &[String]) {
    let a = &res.agg;
    let mut samples: Vec<serde_json::Value> = a.samples.iter().map(|s| serde_json::Value::String(s.clone())).collect();
    if samples.is_empty() {
        for (c, s) in a.class_samples.iter().take(4) {
            samples.push(serde_json::Value::String(format!("[class {c}] {s}")));
        }
    }
    if samples.is_empty() {
        samples.push(serde_json::Value::String("(no non-trivial sample recorded)".into()));
    }
    let sub: serde_json::Map<String, serde_json::Value> = a
        .sub
        .iter()
        .map(|(k, v)| (k.clone(), serde_json::json!({"evaluations": v.0, "distinct_nontrivial": v.1})))
        .collect();
    let mut cov = serde_json::json!({
        "evaluations": a.evaluations,
        "distinct_nontrivial": a.nontrivial.len(),
        "rule": prop.rule,
        "samples": samples,
        "classes": a.classes,
        "class_samples": a.class_samples,
        "subchecks": sub,
        "excluded_known": a.excluded_known,
        "known_findings_reported": known_lines,
        "exhaustive": a.exhaustive,
        "threads": opts.threads,
    });
    for (k, v) in &a.extra_notes {
        cov[k] = v.clone();
    }
    let v = serde_json::json!({
        "property_id": prop.id,
        "tier": if opts.thorough { "thorough" } else { "quick" },
        "seed": opts.seed,
        "level": "exploration",
        "coverage": cov,
        "assumptions": prop.assumptions,
        "wall_s": res.wall_s,
        "violations": res.violations.len(),
    });
    let p = verif_root().join("evidence").join(format!("{}.json", prop.id));
    let _ = std::fs::create_dir_all(p.parent().unwrap());
    std::fs::write(&p, serde_json::to_string_pretty(&v).unwrap()).expect("write evidence");
}


//------------ Async helper ------------------------------------------------------

/// Runs a future on a fresh single-threaded tokio runtime with the clock
/// paused (virtual time: sleeps/timeouts advance instantly and
/// deterministically when all tasks are idle).
pub fn block_on_paused<F: std::future::Future>(fut: F) -> F::Output {
    let rt = tokio::runtime::Builder::new_current_thread()
        .enable_all()
        .start_paused(true)
        .build()
        .expect("tokio runtime");
    let out = rt.block_on(fut);
    // dropping the runtime cancels every task that is still alive
    drop(rt);
    out
}

//------------ Fuzz entry ----------------------------------------------------------

/// Entry point for coverage-guided targets (see /verif/fuzz): runs one
/// sub-check on raw bytes; known findings are tolerated; anything else
/// aborts with a VERIF-VIOLATION marker.
pub fn fuzz_entry(props: &[Prop], prop_id: &str, sub: &str, data: &[u8], known: &Arc<Vec<KnownFinding>>) {
    let prop = props.iter().find(|p| p.id == prop_id).expect("property");
    let sc = prop.subchecks.iter().find(|s| s.name == sub).expect("subcheck");
    let (_ctx, r) = run_case(prop.id, sc, data, known, false, true);
    if let Err(v) = r {
        eprintln!("VERIF-VIOLATION property={} sub={} sig={}\n{}", prop_id, sub, v.sig, v.detail);
        std::process::abort();
    }
}
