#!/bin/bash
# tools/selftest_mutants.sh [ID...] — sensitivity self-test: applies every
# patch in mutants/<ID>/ and seeded/<ID>*/patch.diff to /repo in turn, runs
# the property's quick check, expects exit 1, and reverts. Prints a table.
cd /verif
IDS="$@"; [ -z "$IDS" ] && IDS=$(ls mutants seeded 2>/dev/null | grep -oE "^C[0-9]+" | sort -u)
for ID in $IDS; do
  for P in mutants/$ID/*.patch mutants/$ID/*.diff seeded/$ID*/patch.diff; do
    [ -f "$P" ] || continue
    OUT=$(tools/try_patch.sh "$P" "$ID" 2>&1); RC=$(echo "$OUT" | grep -oE "check exit code [0-9]+" | grep -oE "[0-9]+$")
    SIG=$(echo "$OUT" | grep -oE "sig=[^ ]+" | head -1)
    case "$RC" in 1) R=CAUGHT;; 0) R=MISSED;; *) R="INCONCLUSIVE($RC)";; esac
    printf "%-5s %-60s %-14s %s\n" "$ID" "$P" "$R" "$SIG"
  done
done
