#!/bin/bash
# tools/confirm_round.sh <round-tag> <PID>... : confirm out/A and out/B of /tmp/<round>/<PID>, then drop the worktree
R="$1"; shift
for P in "$@"; do
  n=1
  for X in A B; do
    if [ -f /tmp/$R/$P/out/$X/patch.diff ]; then
      echo "== $P $X"; /verif/tools/confirm_seeded.sh /tmp/$R/$P/repo /tmp/$R/$P/out/$X $P-r${R#rt}-$n 2>&1 | tail -4
    fi
    n=$((n+1))
  done
  git -C /repo worktree remove --force /tmp/$R/$P/repo; rm -rf /tmp/$R/$P
done
