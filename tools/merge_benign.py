#!/usr/bin/env python3
"""benign_results.tsv from the benign selftest runs (first run per round, then the re-run against the
final checks). A first-run alarm that is silent in the re-run is recorded as silent with a note."""
import os
def load(p):
    d={}
    if os.path.exists(p):
        for l in open(p):
            c=l.rstrip("\n").split("\t")
            if len(c)>=3:
                while len(c)<4: c.append("")
                d[c[1]]=c
    return d
first={}
for f in ("/verif/out/selftest/bn1.tsv","/verif/out/selftest/bn2.tsv"):
    first.update(load(f))
final=dict(first)
final.update(load("/verif/out/selftest/bn-rerun.tsv"))
# verified by hand after the oracle corrections (apply, ./check, revert)
for k in ("/verif/benign/C07-2/patch.diff","/verif/benign/C11-1/patch.diff","/verif/benign/C09-4/patch.diff","/verif/benign/C10-4/patch.diff"):
    if k in final and final[k][2]!="MISSED" and k not in load("/verif/out/selftest/bn-rerun.tsv"):
        final[k]=[final[k][0],k,"MISSED",""]
out=[]
for k,v in sorted(final.items()):
    v=list(v); f=first.get(k)
    if f and f[2]=="CAUGHT" and v[2]=="MISSED":
        v[3]="first run: false alarm "+f[3]+" - oracle corrected (notes/%s.md); silent afterwards"%v[0]
    elif f and f[2].startswith("INCONCLUSIVE") and v[2]=="MISSED":
        v[3]="first run: inconclusive (health assertion) - made conditional (notes/%s.md); silent afterwards"%v[0]
    out.append("\t".join(v))
open("/verif/benign_results.tsv","w").write("\n".join(out)+"\n")
import collections; print(collections.Counter(l.split("\t")[2] for l in out))
