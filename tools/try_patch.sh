#!/bin/bash
# tools/try_patch.sh <patch.diff> <ID> [check args...] — applies a seeded
# change to /repo, runs the check, and undoes the change straight afterwards.
set -u
P="$(readlink -f "$1")"; shift; ID="$1"; shift
cd /repo || exit 2
if ! git diff --quiet; then echo "/repo has uncommitted changes; refusing" >&2; exit 2; fi
git apply "$P" || { echo "patch does not apply" >&2; exit 2; }
cd /verif && ./check "$ID" "$@"; RC=$?
git -C /repo checkout -- . && git -C /repo clean -fdq -- src tests examples 2>/dev/null
echo "try_patch: check exit code $RC"
exit $RC
