#!/usr/bin/env python3
"""Regenerates /verif/MANIFEST.json from the table below and validates it."""
import json, os, sys
ROOT = os.path.dirname(os.path.dirname(os.path.abspath(__file__)))

# id -> (technique, level text, level_note, design_ref, has_fuzz)
CHECKS = {
 "C17": ("property-based testing + exhaustive enumeration (all 2^32 differences from 7 bases, both serial types) against RFC 1982 on wide integers; metamorphic translation-invariance of the users' decisions (SOA serial bump, IXFR up-to-date decision of the server, acceptance of IXFR streams by the XFR client, signature validity periods)",
         "Generated pairs/addends with boundary bias are checked against an independent RFC 1982 reference (comparison and every comparison operator, antisymmetry, add > self from both sides, translation invariance, associativity, Timestamp agreement, YYYYMMDDHHmmSS value, Timestamp::to_system_time congruence/nearest era/order, Serial::from(jiff::Timestamp) additive and order-preserving across 1970 and 2106) for base::Serial, rdata::dnssec::Timestamp and the new-API new::base::Serial (inc up to 2^31-1); a multi-threaded sweep covers every difference b-a for several bases (complete in the thorough tier for both serial types; in the quick tier a 1/8 slice plus the windows at 0, 2^31 and 2^32) - for a function that depends only on b-a this is close to exhaustive. The decisions the anchored code takes with serials are checked too: commit(bump_soa_serial) must produce the RFC 1982 successor at every boundary; the XFR middleware's IXFR answer (record multiset, first/last record and the order of the SOA records that frame the difference sequences, for histories of one to three diffs) and the XFR client's handling of that answer (XfrResponseInterpreter + ZoneUpdater: accept/reject stage, update kinds, finished state, resulting serial) must be invariant under adding the same amount to all serials involved (reference exchange far from boundaries vs the same exchange at/over the 2^31 and 2^32 boundaries); the signing entry points must accept exactly the RFC 1982-valid inception/expiration periods, translation-invariantly.",
         "Trusts rustc, proptest, the 40-line reference in harness/src/refimpl/serial.rs and the C10 harness pieces (zone model, sender driver, receiver driver) reused by the users-* sub-checks. Serial::add with addend >= 2^31 and new Serial::inc with a negative number panic by contract and are not generated. Version::next (zonetree) is private and covered only via Serial::add(1) and the commit path. The new-API Timestamp type is not exported and therefore not reachable. The IXFR checks demand only translation invariance, not RFC 1995 behaviour (C10's business).",
         "DESIGN.md \u00a74 C17; notes/C17.md"),
}
NOT_YET = {}

props = [json.loads(l) for l in open(os.path.join(ROOT, "properties.jsonl"))]
ids = [p["id"] for p in props]
extra = {}
p = os.path.join(ROOT, "tools", "manifest_extra.json")
if os.path.exists(p):
    extra = json.load(open(p))
CHECKS.update({k: tuple(v) for k, v in extra.get("checks", {}).items()})
# texts delivered by the per-property build notes (notes/CNN.md)
import re, subprocess
def from_notes(i):
    f = os.path.join(ROOT, "notes", f"{i}.md")
    if not os.path.exists(f):
        return None
    text = open(f).read()
    got = {}
    for key in ("technique", "level_claimed.text", "level_note"):
        m = re.search(r"^[\s*\-]*`?" + re.escape(key) + r"`?\s*[:=]\s*([`\"“])", text, re.I | re.M)
        if not m:
            continue
        q = m.group(1); close = "”" if q == "“" else q
        rest = text[m.end():]
        # closing delimiter = the delimiter followed by optional punctuation and a line end that is
        # followed by a blank line, a list item, a heading or the end of the file
        e = re.search(re.escape(close) + r"[\s.]*\n(?=\s*\n|\s*[*\-#]|\s*$|\Z)|" + re.escape(close) + r"[\s.]*\Z", rest)
        if not e:
            continue
        got[key] = " ".join(rest[: e.start()].split())
    if len(got) == 3:
        return (got["technique"], got["level_claimed.text"], got["level_note"], f"DESIGN.md §4 {i}; notes/{i}.md")
    print("  (found only", list(got), "in notes for", i, ")")
    return None
built = set()
try:
    out = subprocess.run([os.path.join(ROOT, "harness/target/release/vcheck"), "list"], capture_output=True, text=True).stdout
    built = {l.split()[0] for l in out.splitlines() if l.strip()}
except Exception:
    pass
hold = set(extra.get('hold', []))
built -= hold
for i in ids:
    if i in built and i not in CHECKS:
        t = from_notes(i)
        if t:
            CHECKS[i] = t
        else:
            print("WARNING: no manifest text in notes for", i)
NA = extra.get("not_applicable", {})
hooks_commits = extra.get("hook_commits", [])

checks = []
for i in ids:
    if i not in CHECKS:
        continue
    tech, text, note, ref = CHECKS[i][:4]
    checks.append({
        "property_id": i,
        "quick_cmd": f"./check {i} --tier quick",
        "thorough_cmd": f"./check {i} --tier thorough",
        "evidence_file": f"/verif/evidence/{i}.json",
        "replay_cmd_template": f"./check {i} --replay {{path}}",
        "engine": "vcheck",
        "level_claimed": {"category": "exploration", "text": text, "design_ref": ref},
        "level_note": note,
        "technique": tech,
    })
na = [{"property_id": i, "reason": NA.get(i, "check not built yet in this session (work in progress; see DESIGN.md §4 for the plan)")} for i in ids if i not in CHECKS]
m = {
 "version": 1,
 "setup_cmd": "cd /verif/harness && CARGO_NET_OFFLINE=true cargo build --release",
 "hooks": {
   "guard": "--cfg domain_verif",
   "enable": "harness/.cargo/config.toml sets build.rustflags = [\"--cfg\", \"domain_verif\"]; every check rebuilds /repo (path dependency) with it",
   "baseline_off_cmd": "cd /repo && cargo test --workspace --no-fail-fast --offline",
   "source_commits": hooks_commits,
   "add_only": True,
 },
 "engines": [
   {"name": "vcheck", "path": "/verif/harness", "serves_properties": [c["property_id"] for c in checks],
    "kind_free_text": "Rust binary: proptest TestRunner over byte vectors decoded with arbitrary::Unstructured into structured cases; per-property oracles (reference models, round trips, differential, metamorphic); shrinking (proptest + signature-preserving byte delta pass); replay files; known-findings by signature; hang watchdog with isolated confirmation"},
 ],
 "checks": checks,
 "not_applicable": na,
 "notes": "All checks: exit 0 held / exit 1 + VIOLATION line / exit 2 inconclusive (build failure, health assertion, watchdog). VERIF_SEED and VERIF_TIER are honoured. Known findings live in /verif/known_findings.json and /verif/known_findings.d/CNN.json (committed, never written at run time). not_applicable is empty: all 20 properties are claimed and decided by generated-input search (DESIGN.md section 6 lists the parts of statements this family cannot reach).",
}
json.dump(m, open(os.path.join(ROOT, "MANIFEST.json"), "w"), indent=1)
try:
    sys.path.insert(0, "/opt/veriftools/pyvenv/lib/python3.11/site-packages")
    import jsonschema
    jsonschema.validate(m, json.load(open("/root/.vp/MANIFEST.schema.json")))
    print("MANIFEST.json valid;", len(checks), "checks,", len(na), "not claimed")
except ImportError:
    print("written (jsonschema not importable)")
