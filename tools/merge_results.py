#!/usr/bin/env python3
"""Merges the selftest outputs of this session into selftest_results.tsv (committed record
used by tools/mkdesign_sections.py). Later files override earlier ones; changes that were
missed at their first run and caught after a follow-up are marked."""
import os
ROOT="/verif"
def load(p):
    d={}
    if os.path.exists(p):
        for l in open(p):
            c=l.rstrip("\n").split("\t")
            if len(c)>=3:
                while len(c)<4: c.append("")
                d[c[1]]=c
    return d
res=load(f"{ROOT}/selftest_results.tsv")
first={}
for f in ("out/r4-results.tsv","out/selftest/r5.tsv","out/selftest/r6.tsv"):
    for k,v in load(f"{ROOT}/{f}").items():
        first[k]=v[2]; res[k]=v
# first-run results established by the builders in their work areas (round 5)
for i in "C12-r5-2 C14-r5-1 C15-r5-2 C16-r5-2 C20-r5-1 C17-r5-1 C17-r5-2".split():
    first[f"/verif/seeded/{i}/patch.diff"]="MISSED"
for k,v in load(f"{ROOT}/out/selftest/final.tsv").items():
    res[k]=v
# verified by hand at integration (git -C /repo apply; ./check; git checkout), not part of a par_selftest run
res["/verif/seeded/C19-r6-1/patch.diff"]=["C19","/verif/seeded/C19-r6-1/patch.diff","CAUGHT","sig=build:new:header-op:set_opcode:flag-fields-differ"]
notes={
 "/verif/seeded/C15-r5-2/patch.diff":"MISSED (harmless behind repair 99c56d6: reported as stream_xfr:question-less-first-message-in-response-stream on trees without the repair; see seeded/C15-r5-2/meta.json)",
 "/verif/seeded/C10-r6-1/patch.diff":"MISSED (masked by known finding C10-F1: zones with zone-cut/CNAME nodes already fail to take IXFR changes at those owners, the observable is the same)",
 "/verif/seeded/C06-r6-2/patch.diff":"MISSED (not taken up: the change only makes the reader reject ZONEMD digests shorter than 12 octets, which RFC 8976 2.2.4 forbids and the library's own wire parser rejects; such values are outside C06's value domain)",
}
out=[]
for k,v in sorted(res.items(), key=lambda kv:(kv[1][0],kv[0])):
    v=list(v)
    if k in notes and v[2]=="MISSED": v[2]=notes[k]
    elif first.get(k)=="MISSED" and v[2]=="CAUGHT": v[2]="CAUGHT (first run: missed; caught after the follow-up)"
    out.append("\t".join(v))
open(f"{ROOT}/selftest_results.tsv","w").write("\n".join(out)+"\n")
import collections
print(collections.Counter(l.split("\t")[2].split(" ")[0] for l in out))
