#!/bin/bash
# tools/confirm_seeded.sh <worktree> <change-dir> <dest-id>
# Confirms an independently written breakage: patch applies + crate builds +
# pinned suite green with the patch; demo fails with it and passes without.
# On success copies patch.diff, demo.rs, meta.json (+confirmation) to
# /verif/seeded/<dest-id>/.
set -u
WT="$1"; CD="$(readlink -f "$2")"; DEST="/verif/seeded/$3"
cd "$WT" || exit 2
git checkout -q -- . ; rm -f tests/zz_seeded_demo.rs
LOG=$(mktemp)
git apply "$CD/patch.diff" || { echo "FAIL: patch does not apply"; exit 1; }
cargo test --workspace --offline >"$LOG" 2>&1; SUITE=$?
PASSED=$(grep -E "^test result: ok. [0-9]+ passed" "$LOG" | head -1)
cp "$CD/demo.rs" tests/zz_seeded_demo.rs
FEAT=$(grep -oE '\-\-features[ =][A-Za-z0-9_,-]+' "$CD/meta.json" | grep -v 'features needed' | head -1)
cargo test --offline $FEAT --test zz_seeded_demo >"$LOG.with" 2>&1; WITH=$?
git checkout -q -- .
cargo test --offline $FEAT --test zz_seeded_demo >"$LOG.without" 2>&1; WITHOUT=$?
rm -f tests/zz_seeded_demo.rs
echo "suite_rc=$SUITE ($PASSED) demo_with_patch_rc=$WITH demo_without_patch_rc=$WITHOUT"
if [ $SUITE -eq 0 ] && [ $WITH -ne 0 ] && [ $WITHOUT -eq 0 ]; then
  mkdir -p "$DEST"; cp "$CD/patch.diff" "$CD/demo.rs" "$DEST/"
  python3 - "$CD/meta.json" "$DEST/meta.json" "$PASSED" "$FEAT" <<'PY'
import json,sys
m=json.load(open(sys.argv[1]))
m["confirmed_by_integrator"]={"pinned_suite_with_patch":"green: "+sys.argv[3],"demo_with_patch":"fails","demo_without_patch":"passes",
  "how":"tools/confirm_seeded.sh in a scratch worktree: git apply patch.diff; cargo test --workspace --offline; cp demo.rs tests/; cargo test --offline %s --test zz_seeded_demo (fails); git checkout -- .; same demo passes" % sys.argv[4]}
json.dump(m,open(sys.argv[2],"w"),indent=1)
PY
  echo "CONFIRMED -> $DEST"
else
  echo "NOT CONFIRMED"; tail -5 "$LOG.with"; tail -5 "$LOG.without"
fi
rm -f "$LOG" "$LOG.with" "$LOG.without"
