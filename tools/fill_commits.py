#!/usr/bin/env python3
"""Fills the commit ids of fixed findings in known_findings.d/*.json from tools/fix_commits.json
and adds the 'fixed:' line the brief asks for."""
import json, glob, os
fc = json.load(open("/verif/tools/fix_commits.json"))
for f in sorted(glob.glob("/verif/known_findings.d/*.json")):
    d = json.load(open(f)); ch = False
    for e in d["findings"]:
        if e.get("status") != "fixed":
            continue
        patch = os.path.basename(e.get("patch", "")) if e.get("patch") else None
        if patch and patch in fc and e.get("commit") != fc[patch]:
            e["commit"] = fc[patch]; ch = True
        line = f"fixed: property={e['property']} {e.get('commit','?')} {e['what']}"
        if e.get("fixed") != line:
            e["fixed"] = line; ch = True
    if ch:
        json.dump(d, open(f, "w"), indent=1); print("updated", f)
    for e in d["findings"]:
        if e.get("status") == "fixed" and (not e.get("commit") or "fill" in str(e.get("commit")) or "integrator" in str(e.get("commit"))):
            print("  MISSING commit:", f, e["id"], e.get("patch"))
