#!/bin/bash
# tools/agent_setup.sh <ID>  — creates an isolated work area for building one
# property check: /tmp/work-<id>/verif (copy of /verif without build output)
# and /tmp/work-<id>/repo (detached git worktree of /repo HEAD). The copy's
# harness depends on that worktree, so fixes and deliberate breakages can be
# applied there without disturbing /repo or other builders.
set -eu
ID="$1"; W="/tmp/work-${ID,,}"
rm -rf "$W/verif"; mkdir -p "$W"
if [ ! -d "$W/repo" ]; then git -C /repo worktree add --detach "$W/repo" HEAD >/dev/null; fi
rsync -a --exclude /fuzz/target --exclude /fuzz/corpus-work --exclude /.git --exclude /out --exclude incremental /verif/ "$W/verif/"
sed -i "s#path = \"/repo\"#path = \"$W/repo\"#" "$W/verif/harness/Cargo.toml"
echo "work area: $W   (run: cd $W/verif && ./check $ID)"
