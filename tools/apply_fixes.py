#!/usr/bin/env python3
"""tools/apply_fixes.py <ID> [--dry] — applies proposed_fixes/<ID>-<n>-*.patch to
/repo in order, each as its own commit whose message is the n-th block
starting with 'fix:' found in notes/<ID>.md. Prints the commit ids."""
import glob, os, re, subprocess, sys
pid = sys.argv[1]; dry = "--dry" in sys.argv
skip = {int(a.split("=")[1]) for a in sys.argv if a.startswith("--skip=")}
only_from = max([int(a.split("=")[1]) for a in sys.argv if a.startswith("--from=")] + [0])
patches = sorted((p for p in glob.glob(f"/verif/proposed_fixes/{pid}-*.patch") if "hook" not in p and "alternative" not in p),
                 key=lambda p: int(re.search(r"-(\d+)-", os.path.basename(p)).group(1)))
notes = open(f"/verif/notes/{pid}.md").read()
# message blocks: from a line starting with "fix:" up to a closing ``` or a blank line followed by a markdown heading
msgs = []
lines = notes.splitlines()
i = 0
while i < len(lines):
    l = lines[i].lstrip("` >").rstrip()
    if l.startswith("fix:"):
        blk = [l]
        i += 1
        while i < len(lines) and not lines[i].startswith("```") and not lines[i].startswith("#") and not lines[i].lstrip("` >").startswith("fix:"):
            blk.append(lines[i].rstrip())
            i += 1
        while blk and not blk[-1].strip():
            blk.pop()
        msgs.append("\n".join(blk))
    else:
        i += 1
if len(msgs) < len(patches):
    # inline form: `fix: title` — description ...
    msgs = []
    for m in re.finditer(r"`(fix:[^`]+)`", notes):
        title = " ".join(m.group(1).split())
        rest = notes[m.end():]
        end = re.search(r"\n\s*\n|\n\s*\d+\.\s|\n\* |\nCommit message", rest)
        body = rest[: end.start()] if end else rest[:600]
        body = " ".join(body.replace("—", " ").split()).strip(" .-")
        body = re.sub(r"\s*Replays? `[^`]*`(, `[^`]*`)*[^.]*\.?", "", body)
        if title in [x.split("\n")[0] for x in msgs]:
            continue
        import textwrap
        msgs.append(title + ("\n\n" + "\n".join(textwrap.wrap(body, 72)) if body else ""))
def clean(m):
    lines = m.split("\n")
    if lines[0].rstrip().endswith("`"):
        return lines[0].rstrip().rstrip("`")          # title only: body extraction unreliable
    out = [lines[0]]
    for l in lines[1:]:
        if l.startswith("* ") or l.startswith("- ") or re.match(r"^\d+\. ", l):
            break
        out.append(l)
    while out and not out[-1].strip():
        out.pop()
    return "\n".join(out)
msgs = [clean(m) for m in msgs]
print(f"{len(patches)} patches, {len(msgs)} fix: messages")
nums = [int(re.search(r"-(\d+)-", os.path.basename(p)).group(1)) for p in patches]
if len(msgs) > len(patches) and max(nums) == len(msgs):
    msgs = [msgs[k - 1] for k in nums]      # messages are numbered like the patches (some already applied elsewhere)
for n, p in enumerate(patches):
    m = msgs[n] if n < len(msgs) else None
    print("----", os.path.basename(p)); print(m)
if dry or len(msgs) < len(patches):
    sys.exit(0 if dry else 1)
assert subprocess.run(["git", "-C", "/repo", "diff", "--quiet"]).returncode == 0, "/repo dirty"
for n, p in enumerate(patches):
    num = int(re.search(r"-(\d+)-", os.path.basename(p)).group(1))
    if num in skip or num < only_from:
        print("SKIPPED", os.path.basename(p)); continue
    r = subprocess.run(["git", "-C", "/repo", "apply", "--3way", p], capture_output=True, text=True)
    if r.returncode != 0:
        r = subprocess.run(["git", "-C", "/repo", "apply", p], capture_output=True, text=True)
    if r.returncode != 0:
        rr = subprocess.run(["git", "-C", "/repo", "apply", "-R", "--check", p], capture_output=True, text=True)
        subprocess.run(["git", "-C", "/repo", "reset", "-q", "--hard", "HEAD"])
        if rr.returncode == 0:
            print("ALREADY APPLIED (duplicate of an earlier fix)", os.path.basename(p)); continue
        print("APPLY FAILED", p, r.stderr); sys.exit(1)
    subprocess.check_call(["git", "-C", "/repo", "commit", "-qam", msgs[n]])
    sha = subprocess.check_output(["git", "-C", "/repo", "rev-parse", "--short", "HEAD"], text=True).strip()
    print("COMMITTED", sha, os.path.basename(p))
    import json
    fc = "/verif/tools/fix_commits.json"
    d = json.load(open(fc)) if os.path.exists(fc) else {}
    d[os.path.basename(p)] = sha
    json.dump(d, open(fc, "w"), indent=1)
