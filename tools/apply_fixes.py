#!/usr/bin/env python3
"""tools/apply_fixes.py <ID> [--dry] — applies proposed_fixes/<ID>-<n>-*.patch to
/repo in order, each as its own commit whose message is the n-th block
starting with 'fix:' found in notes/<ID>.md. Prints the commit ids."""
import glob, os, re, subprocess, sys
pid = sys.argv[1]; dry = "--dry" in sys.argv
patches = sorted(p for p in glob.glob(f"/verif/proposed_fixes/{pid}-*.patch") if "hook" not in p)
notes = open(f"/verif/notes/{pid}.md").read()
# message blocks: from a line starting with "fix:" up to a closing ``` or a blank line followed by a markdown heading
msgs = []
lines = notes.splitlines()
i = 0
while i < len(lines):
    l = lines[i].lstrip("` >").rstrip()
    if l.startswith("fix:"):
        blk = [l]
        i += 1
        while i < len(lines) and not lines[i].startswith("```") and not lines[i].startswith("#") and not lines[i].lstrip("` >").startswith("fix:"):
            blk.append(lines[i].rstrip())
            i += 1
        while blk and not blk[-1].strip():
            blk.pop()
        msgs.append("\n".join(blk))
    else:
        i += 1
print(f"{len(patches)} patches, {len(msgs)} fix: messages")
for n, p in enumerate(patches):
    m = msgs[n] if n < len(msgs) else None
    print("----", os.path.basename(p)); print(m)
if dry or len(msgs) < len(patches):
    sys.exit(0 if dry else 1)
assert subprocess.run(["git", "-C", "/repo", "diff", "--quiet"]).returncode == 0, "/repo dirty"
for n, p in enumerate(patches):
    r = subprocess.run(["git", "-C", "/repo", "apply", "--3way", p], capture_output=True, text=True)
    if r.returncode != 0:
        r = subprocess.run(["git", "-C", "/repo", "apply", p], capture_output=True, text=True)
    if r.returncode != 0:
        print("APPLY FAILED", p, r.stderr); sys.exit(1)
    subprocess.check_call(["git", "-C", "/repo", "commit", "-qam", msgs[n]])
    sha = subprocess.check_output(["git", "-C", "/repo", "rev-parse", "--short", "HEAD"], text=True).strip()
    print("COMMITTED", sha, os.path.basename(p))
    import json
    fc = "/verif/tools/fix_commits.json"
    d = json.load(open(fc)) if os.path.exists(fc) else {}
    d[os.path.basename(p)] = sha
    json.dump(d, open(fc, "w"), indent=1)
