#!/bin/bash
# tools/par_selftest.sh <workers> <listfile>  — sensitivity self-test in parallel scratch areas.
# listfile lines: "<ID> <patch path>". Each worker has its own git worktree of /repo HEAD and its own
# copy of /verif (harness pointing at that worktree), so /repo itself is not touched.
# Output: /verif/out/selftest/results.tsv  (ID, patch, CAUGHT|MISSED|NOAPPLY|INCONCLUSIVE(rc), signature)
set -u
N="$1"; LIST="$(readlink -f "$2")"
mkdir -p /verif/out/selftest; RES=${ST_RES:-/verif/out/selftest/results.tsv}; : > "$RES.lock"
worker() {
  i="$1"; W="/tmp/${ST_PREFIX:-st}-$i"
  rm -rf "$W/verif"; mkdir -p "$W"
  [ -d "$W/repo" ] && git -C /repo worktree remove --force "$W/repo" >/dev/null 2>&1
  git -C /repo worktree add --detach "$W/repo" HEAD >/dev/null 2>&1
  rsync -a --exclude /.git --exclude /out --exclude /fuzz --exclude incremental /verif/ "$W/verif/"
  sed -i "s#path = \"/repo\"#path = \"$W/repo\"#" "$W/verif/harness/Cargo.toml"
  awk -v n="$N" -v i="$i" 'NR % n == i' "$LIST" | while read ID P; do
    [ -f "$P" ] || continue
    git -C "$W/repo" checkout -q -- . ; git -C "$W/repo" clean -fdq -- src >/dev/null 2>&1
    if ! git -C "$W/repo" apply "$P" 2>/dev/null; then
      printf "%s\t%s\tNOAPPLY\t\n" "$ID" "$P" >> "$RES"; continue
    fi
    OUT=$(cd "$W/verif" && ./check "$ID" 2>&1); RC=$?
    SIG=$(echo "$OUT" | grep -oE "sig=[^ ]+" | head -1)
    case "$RC" in 1) R=CAUGHT;; 0) R=MISSED;; *) R="INCONCLUSIVE($RC)";; esac
    printf "%s\t%s\t%s\t%s\n" "$ID" "$P" "$R" "$SIG" >> "$RES"
  done
  git -C /repo worktree remove --force "$W/repo" >/dev/null 2>&1
  rm -rf "$W"
}
for i in $(seq 0 $((N-1))); do worker $i & done
wait
sort "$RES" -o "$RES"; echo "done: $(wc -l < "$RES") results in $RES"
