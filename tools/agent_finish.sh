#!/bin/bash
# tools/agent_finish.sh <ID> — copies the builder's deliverables back into
# /verif (only files owned by that property) and removes the work area.
set -eu
ID="$1"; id="${ID,,}"; W="/tmp/work-$id"
rsync -a --delete "$W/verif/harness/src/props/$id/" "/verif/harness/src/props/$id/"
for d in replays mutants; do [ -d "$W/verif/$d/$ID" ] && mkdir -p "/verif/$d/$ID" && rsync -a "$W/verif/$d/$ID/" "/verif/$d/$ID/"; done
[ -f "$W/verif/known_findings.d/$ID.json" ] && cp "$W/verif/known_findings.d/$ID.json" /verif/known_findings.d/
[ -f "$W/verif/notes/$ID.md" ] && cp "$W/verif/notes/$ID.md" /verif/notes/
ls "$W/verif/proposed_fixes/" 2>/dev/null | grep "^$ID-" | while read f; do cp "$W/verif/proposed_fixes/$f" /verif/proposed_fixes/; done
ls "$W/verif/fixtures/" 2>/dev/null | grep -i "^$id" | while read f; do mkdir -p /verif/fixtures; cp -r "$W/verif/fixtures/$f" /verif/fixtures/; done
git -C /repo worktree remove --force "$W/repo" || true
rm -rf "$W"
echo "deliverables of $ID copied to /verif; work area removed"
