#!/usr/bin/env python3
"""Regenerates the generated part of DESIGN.md (between the GENERATED markers):
§8 log of oracle/generator corrections and §4-bis deviations, collected from notes/CNN.md;
§10 findings table (from known_findings.d) and sensitivity results (from out/selftest/results.tsv
+ seeded/*/meta.json)."""
import glob, json, os, re
ROOT = "/verif"
def section(text, pat):
    lines = text.splitlines(); out = []; lvl = None
    for l in lines:
        m = re.match(r"^(#+)\s+(.*)", l)
        if m:
            if lvl is not None and len(m.group(1)) <= lvl:
                break
            if lvl is None and re.search(pat, m.group(2), re.I):
                lvl = len(m.group(1)); continue
        if lvl is not None:
            out.append(l)
    return "\n".join(out).strip()
parts = []
parts.append("## 8. Log of oracle/generator corrections (false alarms)\n\nCollected from the per-property build notes (`notes/CNN.md`). Every entry is a case where a check demanded more than the property, the documentation or the RFC says, or where a generator left the documented input domain; the machinery was corrected, nothing here was listed as a finding.\n")
parts.append("### Corrections made while integrating\n\n* **C01** — reflexivity of `==` on returned records is C04's statement, not C01's; removed from C01 (a non-reflexive `AllRecordData::Opt` had been reported as a C01 failure). Typed record iterators may yield several RDATA errors and continue (documented), only the untyped section iterator is fused. The library's lazy reader can reach later sections by skipping a record whose owner it cannot decompress, so the walker comparison is per section, and the walker skips names without following pointers. `Label::iter_slice` is bounded by 256 labels (255-octet cap) rather than by the slice length after the repair.\n* **C05** — after the repair `Nsec::parse` rejects an empty type bitmap (RFC 4034 §4.1.2: one or more window blocks), an `Nsec` value with an empty bitmap is outside the valid value domain (like a ZONEMD digest shorter than 12 octets); the constructor-based generator now gives such an NSEC the NSEC bit. NSEC3 keeps empty bitmaps.\n* **C09** — after the repair 'ZoneUpdater ignores a record that is already present' (found by C10; RFC 5936 §2.2, RFC 2181 §5) the C09 model, which let `AddRecord` of an existing record produce a duplicate inside the RRset, disagreed with the library (seed 1: `twin:walk-differs-from-model`). The library is right; the model now treats such an add as a no-op (class `updater-add-duplicate-ignored`).\n* **C19** — the repair that made `Txt::parse` reject empty RDATA broke the repository's own feature-gated test `zonefile::inplace::test::test_unknown_zero_length_yaml`; it was withdrawn (history rewritten before anything depended on it) and the disagreement is recorded as known finding C19-F1 instead. The established and the new type-bitmap parsers both accepted a repeated window block; both were tightened (`>=`), so that neither codec is more lenient than RFC 4034 §4.1.2.\n")
for f in sorted(glob.glob(f"{ROOT}/notes/C*.md")):
    pid = os.path.basename(f)[:-3]
    s = section(open(f).read(), r"false alarm")
    if s:
        parts.append(f"### {pid}\n\n{s}\n")
parts.append("## 9b. Deviations from the per-property plans of §4\n\nWhat each check narrowed, dropped or added relative to §4, with the reason (from `notes/CNN.md`).\n")
for f in sorted(glob.glob(f"{ROOT}/notes/C*.md")):
    pid = os.path.basename(f)[:-3]
    s = section(open(f).read(), r"deviation")
    if s:
        parts.append(f"### {pid}\n\n{s}\n")
# findings
parts.append("## 10. Results\n\n### 10.1 Genuine defects found (see FINDINGS.md for the full table)\n")
rows = []
for f in sorted(glob.glob(f"{ROOT}/known_findings.d/*.json")):
    rows += json.load(open(f)).get("findings", [])
nf = sum(1 for e in rows if e.get("status") == "fixed"); nk = sum(1 for e in rows if e.get("status") == "known")
parts.append(f"{nf} findings are repaired by `fix:` commits in /repo, {nk} are recorded as known findings (tolerated by exact signature, printed as `KNOWN-FINDING` on every run, with a `--strict` replay each):\n")
for e in rows:
    if e.get("status") == "known":
        parts.append(f"* **{e['id']}** — {e['what']} *Why not repaired:* {e.get('why_not_fixed','')}")
parts.append("")
# sensitivity
res = {}
p = f"{ROOT}/out/selftest/results.tsv"
for src in (p, f"{ROOT}/selftest_results.tsv"):
    if os.path.exists(src):
        for l in open(src):
            c = l.rstrip("\n").split("\t")
            if len(c) >= 3:
                res[c[1].replace("/verif/", "")] = (c[0], c[2], c[3] if len(c) > 3 else "")
parts.append("### 10.2 Independently written breakages (`seeded/`)\n\nEach was written by a fresh sub-agent that saw only the property text and a scratch worktree, and was confirmed (compiles, pinned suite green, demonstration fails with / passes without) with `tools/confirm_seeded.sh` before it was kept. Result of the property's quick check with the change applied (`tools/par_selftest.sh`); the table shows the state after the follow-ups. First-run detection per round (before any follow-up for that round): rounds 1-3 (98 changes) see the follow-up sections of `notes/CNN.md`; round 4: 28 of 40 caught at first run (misses: C03-r4-1/2, C04-r4-2, C10-r4-1/2, C12-r4-2, C14-r4-1/2, C15-r4-2, C16-r4-1/2, C20-r4-2); round 5: 30 of 40 (misses: C07-r5-2, C12-r5-2, C13-r5-1/2, C14-r5-1, C15-r5-2, C16-r5-2, C17-r5-1/2, C20-r5-1); round 6: 27 of 40 (misses: C06-r6-2, C07-r6-2, C10-r6-1, C11-r6-1, C12-r6-2, C13-r6-1, C14-r6-2, C15-r6-2, C16-r6-2, C17-r6-1/2, C18-r6-2, C19-r6-1; C11-r6-2 was first run by the C11 builder and was a miss too). After the follow-ups 215 of the 218 changes are caught by the quick tier. Every miss was turned into a generator dimension or oracle clause (not a special case) by the property's builder; what was generalised is described under 'Follow-up' in the notes. Three rows are deliberately left uncaught and say why (a change that stops breaking the property behind a later repair; a change masked by a known finding; a change that only rejects values RFC 8976 forbids).\n\n| change | what it breaks / what it needs | quick check | signature |\n|---|---|---|---|")
for d in sorted(glob.glob(f"{ROOT}/seeded/*/")):
    name = os.path.basename(d.rstrip("/"))
    try:
        m = json.load(open(d + "meta.json"))
    except Exception:
        m = {}
    r = res.get(f"seeded/{name}/patch.diff", ("", "not run", ""))
    what = (m.get("what", "") or "")[:260].replace("|", "\\|").replace("\n", " ")
    needs = (m.get("needs", "") or "")[:200].replace("|", "\\|").replace("\n", " ")
    parts.append(f"| {name} | {what} **Needs:** {needs} | {r[1]} | `{r[2]}` |")
parts.append("")
parts.append("### 10.3 Deliberate breakages from the sensitivity lists (`mutants/`)\n\nWritten by the builder of each check from the §4 sensitivity lists (plus reverts of each repair); results as reported in `notes/CNN.md` and, where re-run at integration, by `tools/par_selftest.sh`:\n")
byid = {}
for k, v in res.items():
    if k.startswith("mutants/"):
        byid.setdefault(v[0], []).append((k, v[1], v[2]))
for pid in sorted(byid):
    tot = len(byid[pid]); c = sum(1 for x in byid[pid] if x[1] == "CAUGHT")
    missed = [os.path.basename(x[0]) for x in byid[pid] if x[1] == "MISSED"]
    na = [os.path.basename(x[0]) for x in byid[pid] if x[1] == "NOAPPLY"]
    parts.append(f"* **{pid}**: {c}/{tot} caught at integration" + (f"; missed: {', '.join(missed)}" if missed else "") + (f"; no longer applies to HEAD (context changed by a later repair): {', '.join(na)}" if na else ""))
parts.append("")
# benign (property-preserving) changes
parts.append("### 10.4 Behaviour-changing but property-preserving changes (`benign/`)\n\nWritten by sub-agents that saw only the property texts (\u00a77 item 7). The property's quick check must stay silent on each; `ALARM` rows are false alarms that were then repaired in the oracle (the row shows the last run).\n\n| change | what it changes | quick check |\n|---|---|---|")
bres = {}
bp = f"{ROOT}/benign_results.tsv"
if os.path.exists(bp):
    for l in open(bp):
        c = l.rstrip("\n").split("\t")
        if len(c) >= 3:
            bres[c[1].replace("/verif/", "")] = (c[2], c[3] if len(c) > 3 else "")
for d in sorted(glob.glob(f"{ROOT}/benign/*/")):
    name = os.path.basename(d.rstrip("/"))
    try:
        m = json.load(open(d + "meta.json"))
    except Exception:
        m = {}
    r = bres.get(f"benign/{name}/patch.diff", ("not run", ""))
    verdict = {"MISSED": "silent" + (" (" + r[1] + ")" if r[1] else ""), "CAUGHT": "ALARM " + r[1]}.get(r[0], r[0])
    what = (m.get("what", "") or "")[:300].replace("|", "\\|").replace("\n", " ")
    parts.append(f"| {name} | {what} | {verdict} |")
parts.append("")
gen = "\n".join(parts)
d = open(f"{ROOT}/DESIGN.md").read()
B, E = "<!-- GENERATED:BEGIN -->", "<!-- GENERATED:END -->"
if B in d:
    d = d[: d.index(B)] + B + "\n" + gen + "\n" + E + d[d.index(E) + len(E):]
else:
    # replace the old empty §8 and keep §9
    a = d.index("## 8. Log of oracle/generator corrections")
    b = d.index("## 9. Tooling notes")
    d = d[:a] + B + "\n" + gen + "\n" + E + "\n\n" + d[b:]
open(f"{ROOT}/DESIGN.md", "w").write(d)
print("DESIGN.md regenerated:", len(gen), "chars generated")
