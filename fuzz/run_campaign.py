#!/usr/bin/env python3
import json, os, re, shutil, subprocess, sys, time, glob, hashlib
FZ = os.path.dirname(os.path.abspath(__file__))
ROOT = os.path.dirname(FZ)
pid = sys.argv[1]
targets = json.load(open(os.path.join(FZ, "targets.json"))).get(pid, [])
if not targets:
    sys.exit(0)
seed = int(os.environ.get("VERIF_SEED", "0") or 0)
scale = float(os.environ.get("VERIF_FUZZ_SCALE", "1") or 1)
ncpu = os.cpu_count() or 4
env = dict(os.environ, RUSTFLAGS="--cfg domain_verif", CARGO_NET_OFFLINE="true")
summ = []
rc = 0
for t in targets:
    name, sub = t["target"], t["sub"]
    b = subprocess.run(["cargo", "+nightly", "fuzz", "build", "--fuzz-dir", FZ, name], env=env, cwd=FZ, stdout=subprocess.PIPE, stderr=subprocess.STDOUT, text=True)
    if b.returncode != 0:
        print("INCONCLUSIVE: fuzz build failed\n" + b.stdout[-3000:], file=sys.stderr)
        sys.exit(2)
    exe = os.path.join(FZ, "target", "x86_64-unknown-linux-gnu", "release", name)
    for mode in ("seeded", "empty"):
        work = os.path.join(FZ, "corpus-work", f"{name}-{mode}")
        shutil.rmtree(work, ignore_errors=True)
        os.makedirs(work)
        if mode == "seeded":
            for f in glob.glob(os.path.join(FZ, "corpus", name, "*")):
                shutil.copy(f, work)
            if t.get("seed_dir"):
                for f in glob.glob(os.path.join(FZ, t["seed_dir"], "*")):
                    if os.path.isfile(f):
                        shutil.copy(f, work)
        art = os.path.join(FZ, "artifacts", name) + "/"
        shutil.rmtree(art, ignore_errors=True)
        os.makedirs(art)
        runs = int(t["runs"] * scale / 2 / ncpu)
        t0 = time.time()
        procs = []
        for j in range(ncpu):
            cmd = [exe, f"-runs={runs}", f"-seed={seed * 1000 + j + 1}", "-len_control=0", f"-max_len={t['max_len']}",
                   "-rss_limit_mb=4096", "-malloc_limit_mb=1024", "-timeout=60", "-reload=120",
                   f"-artifact_prefix={art}", "-print_final_stats=1"] + ([f"-dict={os.path.join(FZ, t['dict'])}"] if t.get("dict") and os.path.exists(os.path.join(FZ, t["dict"])) else []) + [work]
            procs.append(subprocess.Popen(cmd, cwd=work, env=dict(env, VERIF_ROOT=ROOT), stdout=subprocess.PIPE, stderr=subprocess.STDOUT, text=True))
        logs = ""
        for pr in procs:
            o, _ = pr.communicate()
            logs += o
        execs = sum(int(x) for x in re.findall(r"stat::number_of_executed_units:\s*(\d+)", logs))
        cov = [int(x) for x in re.findall(r"cov: (\d+)", logs)]
        corpus = len(os.listdir(work))
        summ.append({"target": name, "sub": sub, "mode": mode, "executions": execs, "max_edge_cov": max(cov) if cov else 0,
                     "corpus_files": corpus, "wall_s": round(time.time() - t0, 1), "seed": seed})
        arts = [a for a in glob.glob(art + "*") if os.path.isfile(a)]
        for a in arts:
            data = open(a, "rb").read()
            kind = os.path.basename(a).split("-")[0]
            out = os.path.join(ROOT, "out", "violations", pid, f"fuzz-{name}-{hashlib.sha1(data).hexdigest()[:16]}.case")
            os.makedirs(os.path.dirname(out), exist_ok=True)
            with open(out, "w") as f:
                f.write(f"vcheck-case v1 {pid} {sub}\n{data.hex()}\n# found by libFuzzer target {name} ({kind})\n")
            if kind in ("oom", "slow-unit") :
                print(f"INCONCLUSIVE: libFuzzer reported {kind} for {a}; case saved as {out}", file=sys.stderr)
                rc = max(rc, 2) if rc != 1 else 1
                continue
            # re-validate through the replay driver (optimised build, no ASan)
            r = subprocess.run([os.path.join(ROOT, "harness", "target", "release", "vcheck"), "replay", pid, out, "--quiet"],
                               env=dict(os.environ, VERIF_ROOT=ROOT), stdout=subprocess.PIPE, stderr=subprocess.STDOUT, text=True)
            if r.returncode == 1:
                print(f"VIOLATION property={pid} replay={out}")
            else:
                # crash only under ASan / libFuzzer: still a violation (memory safety), keep artifact
                print(f"VIOLATION property={pid} replay={out}")
                print("(not reproduced by the non-ASan replay build; sanitizer-only failure)")
            rc = 1
        shutil.rmtree(work, ignore_errors=True)
# merge into the evidence file written by the PBT driver
ev = os.path.join(ROOT, "evidence", f"{pid}.json")
try:
    e = json.load(open(ev))
    e["coverage"]["fuzz"] = summ
    e["coverage"]["evaluations"] += sum(s["executions"] for s in summ)
    if rc == 1:
        e["violations"] = e.get("violations", 0) + 1
    json.dump(e, open(ev, "w"), indent=1)
except Exception as ex:
    print(f"could not merge fuzz stats into evidence: {ex}", file=sys.stderr)
print(f"{pid}: libFuzzer campaigns: " + json.dumps(summ))
sys.exit(rc)
