#!/bin/bash
# fuzz/run_campaign.sh <ID> — thorough tier: coverage-guided campaign(s) for a
# property that has libFuzzer targets (fuzz/targets.json). Fixed work
# (-runs), all cores (-jobs/-workers), seeded corpus + empty corpus.
# exit 0 = nothing found; 1 = VIOLATION line printed; 2 = infrastructure.
exec python3 "$(dirname "$0")/run_campaign.py" "$@"
