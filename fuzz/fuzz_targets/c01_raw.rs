#![no_main]
use libfuzzer_sys::fuzz_target;
use std::sync::{Arc, OnceLock};
use vlib::engine::*;

static STATE: OnceLock<(Vec<Prop>, Arc<Vec<KnownFinding>>)> = OnceLock::new();

fuzz_target!(|data: &[u8]| {
    let (props, known) = STATE.get_or_init(|| {
        install_panic_hook();
        (vlib::props::all(), Arc::new(load_known()))
    });
    fuzz_entry(props, "C01", "raw", data, known);
});
